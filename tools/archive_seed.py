#!/usr/bin/env python3
"""archive_seed.py <PROP> <name>: verify a sub-agent's seeded change (tools/verify_seed.sh), run every
check against it on a scratch copy (tools/try_patch.py), and store patch, demo and meta.json under
/verif/seeded/<name>/ ."""
import json, os, shutil, subprocess, sys
prop, name = sys.argv[1], sys.argv[2]
src = "/tmp/seed/%s/seed_out" % prop
dst = "/verif/seeded/%s" % name
ver = subprocess.run(["/verif/tools/verify_seed.sh", prop], stdout=subprocess.PIPE, stderr=subprocess.STDOUT, text=True).stdout
lines = [l for l in ver.splitlines() if l.startswith(prop + " ")]
ok = (len(lines) == 3 and "179 passed; 0 failed" in lines[0] and "FAILED" in lines[1] and "ok." in lines[2] and "FAILED" not in lines[2])
print("\n".join(lines)); print("verified:", ok)
if not ok:
    sys.exit(1)
tp = subprocess.run(["python3", "/verif/tools/try_patch.py", src + "/patch.diff"], stdout=subprocess.PIPE, stderr=subprocess.STDOUT, text=True).stdout
flagged = [l for l in tp.splitlines() if l.startswith("FLAGGED:")][0][len("FLAGGED:"):].split()
viol = [l for l in tp.splitlines() if " VIOLATION " in l or " FAIL-CLOSED " in l]
os.makedirs(dst, exist_ok=True)
shutil.copy(src + "/patch.diff", dst + "/patch.diff")
if os.path.isdir(dst + "/demo"):
    shutil.rmtree(dst + "/demo")
shutil.copytree(src + "/demo", dst + "/demo")
meta = json.load(open(src + "/meta.json"))
meta["property"] = prop
meta["verified_by_me"] = {"ran": "tools/verify_seed.sh %s (unedited suite with the change; demo with and without the change)" % prop,
                          "suite_with_change": lines[0].split("SUITE:")[1].strip(),
                          "demo_with_change": lines[1].split("change:")[1].strip(),
                          "demo_without_change": lines[2].split("change:")[1].strip()}
meta["checks_run"] = "tools/try_patch.py patch.diff (every registered check on a scratch copy of /repo with the patch applied)"
flagged = [f for f in flagged if f != "(none)"]
meta["detected_by_properties"] = flagged
own_v = [l for l in viol if l.startswith(prop + " VIOLATION ")]
meta["detected_by_own_property_check"] = bool(own_v)              # a VIOLATION line, not merely a fail-closed exit
meta["own_property_fail_closed_only"] = (prop in flagged) and not own_v
meta["reports"] = (own_v[:6] + [l for l in viol if l not in own_v])[:20]
json.dump(meta, open(dst + "/meta.json", "w"), indent=1)
print("archived", dst, "flagged", flagged)
