#!/bin/bash
# Re-verify every archived seed against the CURRENT /repo HEAD in a fresh scratch worktree:
# suite passes with the change, demo fails with it and passes without it.
cd /repo; W=/tmp/seedv; git worktree remove --force $W 2>/dev/null; git worktree add -q --detach $W HEAD || exit 2
cd $W
for d in /verif/seeded/*/; do
  n=$(basename $d)
  git checkout -q -- . ; rm -rf tests
  if ! git apply --check $d/patch.diff 2>/dev/null; then echo "$n: PATCH-NO-LONGER-APPLIES"; continue; fi
  mkdir -p tests; cp $d/demo/*.rs tests/; DEMO=$(ls $d/demo/*.rs | head -1 | xargs basename | sed 's/\.rs$//')
  WITHOUT=$(timeout 600 cargo test --offline --test $DEMO 2>&1 | grep -E "^test result|could not compile" | tr '\n' ' ')
  git apply $d/patch.diff
  WITH=$(timeout 600 cargo test --offline --test $DEMO 2>&1 | grep -E "^test result|could not compile" | tr '\n' ' ')
  rm -rf tests
  SUITE=$(timeout 1200 cargo test --workspace --no-fail-fast --offline 2>&1 | grep -E "^test result" | head -1)
  ok=NO; case "$WITHOUT" in *"ok."*) case "$WITH" in *FAILED*) case "$SUITE" in *"179 passed; 0 failed"*) ok=YES;; esac;; esac;; esac
  echo "$n: valid=$ok | without: $WITHOUT| with: $WITH| suite: $SUITE"
done
cd /repo; git worktree remove --force $W
