#!/usr/bin/env python3
"""False-alarm self-test: behaviour-preserving edits (variants.B) must leave every check silent."""
import os, shutil, sys, tempfile
from concurrent.futures import ThreadPoolExecutor
HERE = os.path.dirname(os.path.abspath(__file__))
VERIF = os.path.dirname(HERE)
sys.path.insert(0, os.path.join(VERIF, "rules")); sys.path.insert(0, os.path.join(VERIF, "variants")); sys.path.insert(0, HERE)
import facts as FACTS, try_patch, variants
REPO = os.environ.get("RXLINT_REPO", "/repo")


def run(v):
    d = tempfile.mkdtemp(prefix="rxben-", dir="/var/tmp")
    try:
        for n in ("src", "Cargo.toml", "Cargo.lock", "README.md"):
            s = os.path.join(REPO, n)
            shutil.copytree(s, os.path.join(d, n)) if os.path.isdir(s) else (os.path.exists(s) and shutil.copy(s, d))
        for (f, old, new) in v["edits"]:
            p = os.path.join(d, f)
            s = open(p).read()
            if old not in s:
                return ("SKIPPED", "anchor text absent in %s" % f)
            open(p, "w").write(s.replace(old, new))
        for f, content in v["adds"].items():
            open(os.path.join(d, f), "w").write(content)
        try:
            res = try_patch.analyse(d)
        except FACTS.FactsError as e:
            return ("SKIPPED", "does not compile: %s" % (str(e).strip().splitlines() or ["?"])[-1][:160])
        bad = []
        for pid, (viol, errs) in sorted(res.items()):
            bad += ["%s VIOLATION [%s] %s" % (pid, x.rule, x.keystr()) for x in viol] + ["%s FAIL-CLOSED %s" % (pid, e) for e in errs]
        return ("SILENT", "") if not bad else ("ALARM", "; ".join(bad[:4]))
    finally:
        shutil.rmtree(d, ignore_errors=True)


def main():
    vs = [v for v in variants.B if len(sys.argv) < 2 or sys.argv[1] in v["name"]]
    with ThreadPoolExecutor(max_workers=10) as ex:
        res = list(ex.map(run, vs))
    n = {"SILENT": 0, "ALARM": 0, "SKIPPED": 0}
    for v, (st, why) in zip(vs, res):
        n[st] += 1
        print("%-8s %-36s %s" % (st, v["name"], why[:260]))
    print("benign edits: %d silent, %d false alarms, %d skipped" % (n["SILENT"], n["ALARM"], n["SKIPPED"]))
    return 1 if n["ALARM"] else 0


if __name__ == "__main__":
    sys.exit(main())
