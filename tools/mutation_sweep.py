#!/usr/bin/env python3
"""Development aid (not a check): line-deletion / condition-negation mutants of selected files; a mutant that
still compiles and that NO property check reports is printed as a survivor for manual triage (equivalent
mutant, or a gap in the rules).   tools/mutation_sweep.py src/observer.rs [more files] [--jobs N]"""
import os, re, shutil, sys, tempfile
from concurrent.futures import ThreadPoolExecutor
HERE = os.path.dirname(os.path.abspath(__file__))
sys.path.insert(0, os.path.join(os.path.dirname(HERE), "rules")); sys.path.insert(0, HERE)
import facts as FACTS, try_patch


def mutants(path, text):
    lines = text.split("\n")
    # stop at the test module
    end = len(lines)
    for i, l in enumerate(lines):
        if l.startswith("mod test") or l.startswith("#[cfg(test)]") or l.startswith("#[cfg(all(test"):
            end = i
            break
    out = []
    for i in range(end):
        l = lines[i]
        st = l.strip()
        only_new = "--swap" in sys.argv or "--ror" in sys.argv or "--const" in sys.argv or "--method" in sys.argv or "--args" in sys.argv or "--cond" in sys.argv or "--ret" in sys.argv
        if not only_new and st.endswith(";") and not st.startswith(("let ", "use ", "//", "pub ", "type ", "return")) and "(" in st and l.startswith("    "):
            out.append(("del %d: %s" % (i + 1, st[:70]), "\n".join(lines[:i] + lines[i + 1:])))
        # swap two adjacent call statements of the same block (ordering mutants)
        if i + 1 < end and "--swap" in sys.argv:
            l2 = lines[i + 1]
            st2 = l2.strip()
            ind = len(l) - len(l.lstrip())
            if st.endswith(";") and st2.endswith(";") and "(" in st and "(" in st2 and ind == len(l2) - len(l2.lstrip()) and ind >= 4 \
                    and not st.startswith(("let ", "use ", "//", "return", "break", "continue")) \
                    and not st2.startswith(("let ", "use ", "//", "return", "break", "continue")) and st != st2:
                out.append(("swap %d/%d: %s <-> %s" % (i + 1, i + 2, st[:40], st2[:40]), "\n".join(lines[:i] + [l2, l] + lines[i + 2:])))
        # relational operator replacement
        if "--ror" in sys.argv and l.startswith("    ") and not st.startswith(("//", "fn ", "pub ", "impl", "where", "use ")):
            for (a, b_) in ((" < ", " <= "), (" <= ", " < "), (" > ", " >= "), (" >= ", " > "), (" == ", " != "), (" != ", " == "), (" && ", " || "), (" || ", " && ")):
                if a in l and "->" not in l and "::<" not in l:
                    out.append(("ror %d: %s [%s->%s]" % (i + 1, st[:60], a.strip(), b_.strip()), "\n".join(lines[:i] + [l.replace(a, b_, 1)] + lines[i + 1:])))
        # swap two comma-separated arguments / tuple components written on one line: f(a, b) -> f(b, a)
        if "--args" in sys.argv and l.startswith("    ") and not st.startswith(("//", "fn ", "pub ", "impl", "where", "use ", "#", "let (", "move |", "|")):
            for mm in re.finditer(r"\(([^()]+)\)", l):
                inner = mm.group(1)
                parts = [x.strip() for x in inner.split(",")]
                if len(parts) == 2 and all(parts) and parts[0] != parts[1] and "|" not in inner and ":" not in inner:
                    rep = l[:mm.start(1)] + parts[1] + ", " + parts[0] + l[mm.end(1):]
                    out.append(("args %d: %s [(%s, %s) swapped]" % (i + 1, st[:60], parts[0][:15], parts[1][:15]), "\n".join(lines[:i] + [rep] + lines[i + 1:])))
        # condition forced to a constant: `if c {` -> `if true {` / `if false {`  (also `} else if c {`)
        if "--cond" in sys.argv:
            mc = re.match(r"^(\s+)(\}? ?(?:else )?if )(.*) \{$", l)
            if mc and "let " not in l:
                for cst in ("true", "false"):
                    keep = "let _ = %s; " % mc.group(3) if False else ""
                    out.append(("cond %d: %s [-> %s]" % (i + 1, st[:60], cst), "\n".join(lines[:i] + [mc.group(1) + mc.group(2) + cst + " {"] + lines[i + 1:])))
            mw = re.match(r"^(\s+)while (.*) \{$", l)
            if mw and "let " not in l:
                out.append(("cond %d: %s [-> false]" % (i + 1, st[:60]), "\n".join(lines[:i] + [mw.group(1) + "while false {"] + lines[i + 1:])))
        # control transfer removed: `return;` / `break;` / `continue;` lines deleted, `return x;` -> `x;` not attempted
        if "--ret" in sys.argv and st in ("return;", "break;", "continue;"):
            out.append(("ret %d: %s deleted" % (i + 1, st), "\n".join(lines[:i] + lines[i + 1:])))
        # sibling-method replacement
        if "--method" in sys.argv and l.startswith("    ") and not st.startswith(("//", "fn ", "pub ", "impl", "where", "use ", "#")):
            for (a, b_) in ((".pop_front()", ".pop_back()"), (".pop_back()", ".pop_front()"), (".push_back(", ".push_front("), (".push_front(", ".push_back("),
                            (".call_and_clear_if_available(", ".call_if_available("), (".call_if_available(", ".call_and_clear_if_available("),
                            (".read()", ".write()"), (".is_some()", ".is_none()"), (".is_none()", ".is_some()"), (".first()", ".last()"), (".last()", ".first()"),
                            (".iter()", ".iter().rev()"), (".into_iter()", ".into_iter().rev()"), (" < ", " > "), (" > ", " < "), (".is_empty()", ".len() == 1"),
                            (".sink_complete(&serial)", ".sink_complete_force()"), (".sink_complete_force()", ".finalize()"), (".pop()", ".first().cloned()"),
                            (".notify_one()", ".notify_all()"), (".take()", ".clone()"), (".unwrap_or(false)", ".unwrap_or(true)"), (".unwrap_or(true)", ".unwrap_or(false)"),
                            (".min(", ".max("), (".max(", ".min("), ("Some(", "None.or(Some("), (".saturating_sub(", ".saturating_add("),
                            (".inner_subscribe(", ".subscribe_keep("), (".clear()", ".len()")):
                if a in l:
                    rep = l.replace(a, b_, 1)
                    if b_ == "None.or(Some(":
                        # close the extra parenthesis right after the matching one of Some(
                        i0 = l.index(a) + len(a)
                        depth_, j0 = 1, i0
                        while j0 < len(l) and depth_:
                            depth_ += {"(": 1, ")": -1}.get(l[j0], 0)
                            j0 += 1
                        if depth_:
                            continue
                        rep = l[:l.index(a)] + "None.or(Some(" + l[i0:j0] + ")" + l[j0:]
                        rep = rep.replace("None.or(Some(", "{ let _unused = (", 1)[:0] or (l[:l.index(a)] + "None" + l[j0:])
                    out.append(("method %d: %s [%s->%s]" % (i + 1, st[:60], a, b_ if b_ != "None.or(Some(" else "None"), "\n".join(lines[:i] + [rep] + lines[i + 1:])))
        # constant / arithmetic replacement
        if "--const" in sys.argv and l.startswith("    ") and not st.startswith(("//", "fn ", "pub ", "impl", "where", "use ", "#")):
            for mm in re.finditer(r"(?<![\w.])(\d+)(?![\w.])", l):
                n_ = int(mm.group(1))
                for rep in sorted({n_ + 1, max(n_ - 1, 0)} - {n_}):
                    out.append(("const %d: %s [%d->%d]" % (i + 1, st[:60], n_, rep), "\n".join(lines[:i] + [l[:mm.start(1)] + str(rep) + l[mm.end(1):]] + lines[i + 1:])))
            for (a, b_) in (("true", "false"), ("false", "true")):
                for mm in re.finditer(r"\b%s\b" % a, l):
                    out.append(("const %d: %s [%s->%s]" % (i + 1, st[:60], a, b_), "\n".join(lines[:i] + [l[:mm.start()] + b_ + l[mm.end():]] + lines[i + 1:])))
            for (a, b_) in ((" + ", " - "), (" - ", " + "), (" += ", " -= "), (" -= ", " += ")):
                if a in l and "->" not in l and "'a" not in l and "Send" not in l:
                    out.append(("arith %d: %s [%s->%s]" % (i + 1, st[:60], a.strip(), b_.strip()), "\n".join(lines[:i] + [l.replace(a, b_, 1)] + lines[i + 1:])))
        m = re.match(r"^(\s+)(\}? ?(?:else )?if )(!?)(.*) \{$", l)
        if m and "let " not in l and not only_new:
            cond = m.group(4)
            neg = (m.group(1) + m.group(2) + ("" if m.group(3) else "!(") + cond + ("" if m.group(3) else ")") + " {")
            out.append(("neg %d: %s" % (i + 1, st[:70]), "\n".join(lines[:i] + [neg] + lines[i + 1:])))
    return out


def run(job):
    f, name, text = job
    d = tempfile.mkdtemp(prefix="rxmut-", dir="/var/tmp")
    try:
        try_patch.copy_repo(d)
        open(os.path.join(d, f), "w").write(text)
        try:
            res = try_patch.analyse(d)
        except FACTS.FactsError:
            return (f, name, "NOCOMPILE", [])
        flagged = sorted(p for p, (v, e) in res.items() if v or e)
        return (f, name, "FLAGGED" if flagged else "SURVIVOR", flagged)
    finally:
        shutil.rmtree(d, ignore_errors=True)


def main():
    args = [a for a in sys.argv[1:] if not a.startswith("--")]
    jobs = []
    for f in args:
        text = open(os.path.join("/repo", f)).read()
        for (name, mt) in mutants(f, text):
            jobs.append((f, name, mt))
    n = {"FLAGGED": 0, "SURVIVOR": 0, "NOCOMPILE": 0}
    with ThreadPoolExecutor(max_workers=10) as ex:
        for (f, name, st, fl) in ex.map(run, jobs):
            n[st] += 1
            if st == "SURVIVOR":
                print("SURVIVOR %s %s" % (f, name))
            elif "--all" in sys.argv:
                print("%s %s %s %s" % (st, f, name, fl))
    print(n)


main()
