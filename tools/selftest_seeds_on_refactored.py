#!/usr/bin/env python3
"""Detection robustness: apply the behaviour-preserving refactorings first, then each seeded
change on top (when its patch still applies); the seed's own-property check must still report it."""
import glob, json, os, shutil, subprocess, sys, tempfile
from concurrent.futures import ThreadPoolExecutor
V = os.path.dirname(os.path.dirname(os.path.abspath(__file__)))
sys.path.insert(0, os.path.join(V, "tools")); sys.path.insert(0, os.path.join(V, "rules"))
import try_patch, facts as FACTS

refs = sorted(glob.glob(os.path.join(V, "refactors", "*.diff")))


def run(d):
    meta = json.load(open(os.path.join(d, "meta.json")))
    w = tempfile.mkdtemp(prefix="rxsr-", dir="/var/tmp")
    try:
        try_patch.copy_repo(w)
        subprocess.check_call(["git", "init", "-q"], cwd=w)
        p = subprocess.run(["git", "apply", "--whitespace=nowarn", os.path.join(d, "patch.diff")], cwd=w, stdout=subprocess.DEVNULL, stderr=subprocess.DEVNULL)
        if p.returncode != 0:
            return os.path.basename(d), "SKIPPED", "seed patch does not apply"
        applied = []
        for r in refs:      # every refactoring that still applies on top of the seeded change
            if subprocess.run(["git", "apply", "--whitespace=nowarn", r], cwd=w, stdout=subprocess.DEVNULL, stderr=subprocess.DEVNULL).returncode == 0:
                applied.append(os.path.basename(r).replace(".diff", ""))
        try:
            res = try_patch.analyse(w)
        except FACTS.FactsError:
            return os.path.basename(d), "SKIPPED", "does not build"
        viol, errs = res.get(meta["property"], ([], []))
        if viol:
            return os.path.basename(d), "DETECTED", "%s (with %s)" % (viol[0].rule, "+".join(applied))
        if meta.get("expected_miss"):
            return os.path.basename(d), "EXPECTED-MISS", ""
        return os.path.basename(d), "MISSED", "errors: %s" % errs[:2]
    finally:
        shutil.rmtree(w, ignore_errors=True)


ds = sorted(glob.glob(os.path.join(V, "seeded", "*")))
with ThreadPoolExecutor(max_workers=8) as ex:
    res = list(ex.map(run, ds))
n = {}
for name, st, why in res:
    n[st] = n.get(st, 0) + 1
    print("%-14s %-10s %s" % (st, name, why))
print(n)
sys.exit(1 if n.get("MISSED") else 0)
