#!/usr/bin/env python3
"""False-alarm regression: the behaviour-preserving refactorings produced by independent
sub-agents (refactors/R*.diff, 60-200 changed lines each, suite verified) must leave every
check silent when applied to a scratch copy of the current tree.  A patch that no longer
applies (the tree moved) is skipped and counted."""
import glob, os, subprocess, sys
from concurrent.futures import ThreadPoolExecutor
V = os.path.dirname(os.path.dirname(os.path.abspath(__file__)))


def run(p):
    o = subprocess.run(["python3", os.path.join(V, "tools/try_patch.py"), p], stdout=subprocess.PIPE, stderr=subprocess.STDOUT, text=True).stdout
    if "PATCH DOES NOT APPLY" in o or "DOES NOT BUILD" in o:
        return p, "SKIPPED", ""
    bad = [l for l in o.splitlines() if " VIOLATION " in l or " FAIL-CLOSED " in l]
    return p, ("ALARM" if bad else "SILENT"), "; ".join(bad[:3])


ps = sorted(glob.glob(os.path.join(V, "refactors", "*.diff")))
with ThreadPoolExecutor(max_workers=6) as ex:
    res = list(ex.map(run, ps))
n = {"SILENT": 0, "ALARM": 0, "SKIPPED": 0}
for p, st, why in res:
    n[st] += 1
    print("%-8s %-20s %s" % (st, os.path.basename(p), why[:300]))
print("refactorings: %d silent, %d false alarms, %d skipped" % (n["SILENT"], n["ALARM"], n["SKIPPED"]))
sys.exit(1 if n["ALARM"] else 0)
