#!/usr/bin/env python3
"""False-alarm regression: the behaviour-preserving refactorings produced by independent
sub-agents (refactors/R*.diff, 60-500 changed lines each, suite verified) must not make any check
report something new.  A patch that applies to the current tree is tested on it (must be completely
silent).  A patch that no longer applies (the tree moved under it) is tested differentially on the
commit it was written for (refactors/BASE): reports(base + patch) must be a subset of reports(base)."""
import glob, json, os, shutil, subprocess, sys, tempfile
from concurrent.futures import ThreadPoolExecutor
V = os.path.dirname(os.path.dirname(os.path.abspath(__file__)))
sys.path.insert(0, os.path.join(V, "tools")); sys.path.insert(0, os.path.join(V, "rules"))
import try_patch, facts as FACTS
BASE = open(os.path.join(V, "refactors", "BASE")).read().strip()


def base_of(patch):
    """the commit a refactoring was written for: "base" in its meta.json, else refactors/BASE"""
    m = patch[:-len(".diff")] + ".meta.json"
    try:
        return json.load(open(m)).get("base") or BASE
    except Exception:
        return BASE


def export_base(d, base=BASE):
    p = subprocess.run("git -C /repo archive %s src Cargo.toml Cargo.lock README.md | tar -x -C %s" % (base, d), shell=True)
    return p.returncode == 0


def reports(d):
    res = try_patch.analyse(d)
    out = set()
    for pid, (viol, errs) in res.items():
        out |= {"%s VIOLATION [%s] %s" % (pid, x.rule, x.keystr()) for x in viol}
        out |= {"%s FAIL-CLOSED %s" % (pid, e) for e in errs}
    return out


_base_reports = {}


def base_reports(base=BASE):
    if base not in _base_reports:
        d = tempfile.mkdtemp(prefix="rxbase-", dir="/var/tmp")
        try:
            export_base(d, base)
            _base_reports[base] = reports(d)
        finally:
            shutil.rmtree(d, ignore_errors=True)
    return _base_reports[base]


def run(p):
    d = tempfile.mkdtemp(prefix="rxref-", dir="/var/tmp")
    try:
        try_patch.copy_repo(d)
        subprocess.check_call(["git", "init", "-q"], cwd=d)
        mode = "HEAD"
        if subprocess.run(["git", "apply", "--whitespace=nowarn", p], cwd=d, stdout=subprocess.DEVNULL, stderr=subprocess.DEVNULL).returncode != 0:
            shutil.rmtree(d); os.makedirs(d)
            mode = "BASE"
            export_base(d, base_of(p))
            subprocess.check_call(["git", "init", "-q"], cwd=d)
            if subprocess.run(["git", "apply", "--whitespace=nowarn", p], cwd=d, stdout=subprocess.DEVNULL, stderr=subprocess.DEVNULL).returncode != 0:
                return p, "SKIPPED", "does not apply to HEAD nor to its base"
        try:
            rp = reports(d)
        except FACTS.FactsError:
            return p, "SKIPPED", "does not build"
        new = rp - (base_reports(base_of(p)) if mode == "BASE" else set())
        return p, ("ALARM" if new else "SILENT"), ("[%s] " % mode) + "; ".join(sorted(new)[:3])
    finally:
        shutil.rmtree(d, ignore_errors=True)


ps = sorted(glob.glob(os.path.join(V, "refactors", "*.diff")))
for b_ in sorted({base_of(p) for p in ps}):
    base_reports(b_)
with ThreadPoolExecutor(max_workers=6) as ex:
    res = list(ex.map(run, ps))
n = {"SILENT": 0, "ALARM": 0, "SKIPPED": 0}
for p, st, why in res:
    n[st] += 1
    print("%-8s %-12s %s" % (st, os.path.basename(p), why[:300]))
print("refactorings: %d silent, %d false alarms, %d skipped" % (n["SILENT"], n["ALARM"], n["SKIPPED"]))
sys.exit(1 if n["ALARM"] else 0)
