#!/bin/bash
# verify_seed.sh <ID> : confirm a sub-agent's seeded change in its own scratch worktree /tmp/seed/<ID>
#  (1) patch.diff == the applied change, (2) unedited suite passes with it, (3) demo fails with it,
#  (4) demo passes without it.  Prints a one-line verdict; copies the artefacts to /verif/seeded/<ID>/ on success.
set -u
ID=$1; W=/tmp/seed/$ID; O=$W/seed_out
cd $W || exit 2
[ -f $O/patch.diff ] || { echo "$ID: no patch.diff"; exit 2; }
git diff HEAD -- src > /tmp/seed/$ID.cur.diff
git apply --check -R $O/patch.diff 2>/dev/null || { echo "$ID: patch.diff does not match the worktree"; exit 2; }
rm -rf tests
SUITE=$(timeout 1200 cargo test --workspace --no-fail-fast --offline 2>&1 | grep -E "^test result" | tr '\n' ' ')
mkdir -p tests; cp $O/demo/*.rs tests/ 2>/dev/null
DEMO=$(ls $O/demo/*.rs | head -1 | xargs basename | sed 's/\.rs$//')
WITH=$(timeout 600 cargo test --offline --test $DEMO 2>&1 | grep -E "^test result|error\[|could not compile" | tr '\n' ' ')
git apply -R $O/patch.diff
WITHOUT=$(timeout 600 cargo test --offline --test $DEMO 2>&1 | grep -E "^test result|error\[|could not compile" | tr '\n' ' ')
git apply $O/patch.diff
rm -rf tests
echo "$ID SUITE: $SUITE"
echo "$ID DEMO with change: $WITH"
echo "$ID DEMO without change: $WITHOUT"
