#!/usr/bin/env python3
"""Regenerates the generated parts of DESIGN.md §12 (between <!-- GEN:x --> markers) from
known_findings.json and seeded/*/meta.json."""
import glob, json, os, re, subprocess
V = os.path.dirname(os.path.dirname(os.path.abspath(__file__)))
F = json.load(open(os.path.join(V, "known_findings.json")))


def fixed_table():
    rows, seen = [], {}
    for f in F:
        if f["status"] != "fixed":
            continue
        k = f["commit"]
        seen.setdefault(k, dict(rules=set(), props=set(), what=f["what"], demo=f["demonstration"]))
        seen[k]["rules"].add(f["rule"]); seen[k]["props"].add(f["property"])
    log = subprocess.check_output(["git", "-C", "/repo", "log", "--reverse", "--format=%h %s"], text=True).splitlines()
    order = [l.split()[0] for l in log]
    out = ["| commit | property / rule | what was wrong | demonstration (input -> observed) |", "|---|---|---|---|"]
    for c in sorted(seen, key=lambda x: order.index(x) if x in order else 999):
        e = seen[c]
        d = e["demo"]
        out.append("| %s | %s / %s | %s | %s -> %s |" % (c, ", ".join(sorted(e["props"])), ", ".join(sorted(e["rules"])),
                                                     e["what"].replace("|", "/")[:220], str(d.get("input", ""))[:120].replace("|", "/"), str(d.get("observed", ""))[:80].replace("|", "/")))
    return "\n".join(out)


def known_table():
    out = ["| property / rule | key | what fails | demonstration | why not repaired |", "|---|---|---|---|---|"]
    for f in F:
        if f["status"] != "known":
            continue
        d = f["demonstration"]
        demo = d if isinstance(d, str) else "%s -> %s" % (d.get("input", ""), d.get("observed", ""))
        out.append("| %s / %s | %s | %s | %s | %s |" % (f["property"], f["rule"], " / ".join(f["key"][1:]).replace("|", "/"),
                                                     f["what"].replace("|", "/")[:200], demo.replace("|", "/")[:200], f.get("why_not_fixed", "")[:160].replace("|", "/")))
    return "\n".join(out)


def seed_table():
    rows = []
    for d in sorted(glob.glob(os.path.join(V, "seeded", "*"))):
        m = json.load(open(d + "/meta.json"))
        rules = sorted({l.split("[")[1].split("]")[0] for l in m.get("reports", []) if " VIOLATION [" in l and l.startswith(m["property"] + " ")})
        rows.append((os.path.basename(d), m["property"], (m.get("summary") or "")[:130].replace("|", "/").replace("\n", " "),
                     ", ".join(m["detected_by_properties"]) or "—", ", ".join(rules) or ("— (expected miss)" if m.get("expected_miss") else "—")))
    out = ["| seed | property | change (sub-agent's summary, truncated) | properties whose check reports it | rule(s) reporting under its own property |", "|---|---|---|---|---|"]
    out += ["| %s | %s | %s | %s | %s |" % r for r in rows]
    return "\n".join(out)


def rules_table():
    import sys
    sys.path.insert(0, os.path.join(V, "rules"))
    import registry
    ids = [json.loads(l)["id"] for l in open(os.path.join(V, "properties.jsonl"))]
    out = ["| id | rules (rule id : floor on examined instances) |", "|---|---|"]
    for pid in ids:
        rs = registry.rules_for(pid)
        out.append("| %s | %s |" % (pid, ", ".join("%s:%d" % (rid, floor) for rid, _, floor in rs) if rs else "— not applicable"))
    return "\n".join(out)


p = os.path.join(V, "DESIGN.md")
s = open(p).read()
for name, gen in (("fixed", fixed_table), ("known", known_table), ("seeds", seed_table), ("rules", rules_table)):
    a, b = "<!-- GEN:%s -->" % name, "<!-- /GEN:%s -->" % name
    if a in s and b in s:
        s = s[:s.index(a) + len(a)] + "\n" + gen() + "\n" + s[s.index(b):]
open(p, "w").write(s)
print("DESIGN.md tables regenerated")
