#!/usr/bin/env python3
"""Run every property's rules against a scratch copy of /repo with a patch applied.

  tools/try_patch.py <patch.diff> [--keep]        # copy /repo (sources only), git apply, analyse, delete
  tools/try_patch.py --dir <crate dir>            # analyse an existing directory

Prints, per property, the unlisted violations and fail-closed errors.  Never touches /repo and
writes no evidence."""
import json, os, shutil, subprocess, sys, tempfile
HERE = os.path.dirname(os.path.abspath(__file__))
sys.path.insert(0, os.path.join(os.path.dirname(HERE), "rules"))
import facts as FACTS
from model import Program
from effects import Effects, load_program
from rules_h import Handlers
import registry, runner


def analyse(crate_dir):
    fx = FACTS.build_facts(crate_dir)
    P = load_program(fx); E = Effects(P); H = Handlers(P, E)
    ctx = registry.Ctx(P, E, H)
    ids = [json.loads(l)["id"] for l in open(os.path.join(os.path.dirname(HERE), "properties.jsonl"))]
    known = runner.load_known()
    out = {}
    for pid in ids:
        rules = registry.rules_for(pid)
        if not rules:
            continue
        kk = {tuple(k["key"]) for k in known if k.get("property") == pid and k.get("status") == "known"}
        viol, errs = [], []
        for (rid, fn, floor) in rules:
            try:
                r = fn(ctx)
            except Exception as e:
                errs.append("%s crashed: %r" % (rid, e)); continue
            errs += r.errors
            if r.examined < floor:
                errs.append("%s: examined %d < floor %d" % (rid, r.examined, floor))
            for v in r.violations:
                if (v.rule,) + v.key not in kk:
                    viol.append(v)
        out[pid] = (viol, errs)
    return out


def copy_repo(dst):
    for n in ("src", "Cargo.toml", "Cargo.lock", "README.md"):
        s = os.path.join("/repo", n)
        if os.path.isdir(s):
            shutil.copytree(s, os.path.join(dst, n))
        elif os.path.exists(s):
            shutil.copy(s, dst)


def main():
    args = sys.argv[1:]
    if args and args[0] == "--dir":
        res = analyse(args[1])
    else:
        patch = os.path.abspath(args[0])
        d = tempfile.mkdtemp(prefix="rxmut-", dir="/var/tmp")
        try:
            copy_repo(d)
            subprocess.check_call(["git", "init", "-q"], cwd=d)
            p = subprocess.run(["git", "apply", "--whitespace=nowarn", patch], cwd=d, stdout=subprocess.PIPE, stderr=subprocess.STDOUT, text=True)
            if p.returncode != 0:
                print("PATCH DOES NOT APPLY:\n" + p.stdout); return 3
            try:
                res = analyse(d)
            except FACTS.FactsError as e:
                print("DOES NOT BUILD: %s" % e); return 3
        finally:
            if "--keep" not in args:
                shutil.rmtree(d, ignore_errors=True)
    flagged = []
    for pid, (viol, errs) in sorted(res.items()):
        if viol or errs:
            flagged.append(pid)
        for v in viol:
            print("%s VIOLATION [%s] %s @ %s:%s" % (pid, v.rule, v.keystr(), v.file, v.line))
        for e in errs:
            print("%s FAIL-CLOSED %s" % (pid, e))
    print("FLAGGED: %s" % (" ".join(flagged) if flagged else "(none)"))
    return 1 if flagged else 0


if __name__ == "__main__":
    sys.exit(main())
