#!/usr/bin/env python3
"""Checker self-test: apply each single-edit variant (variants/variants.py) to a scratch copy of
/repo's current tree and require the named rule to report it under the named property.

  tools/selftest_variants.py [--prop C08] [--jobs 8] [--name substring]

Result per variant: DETECTED / MISSED (checker bug) / SKIPPED (anchor text absent or no longer
compiles).  Exit 0 if nothing was MISSED."""
import json, os, shutil, subprocess, sys, tempfile
from concurrent.futures import ThreadPoolExecutor
HERE = os.path.dirname(os.path.abspath(__file__))
VERIF = os.path.dirname(HERE)
sys.path.insert(0, os.path.join(VERIF, "rules"))
sys.path.insert(0, os.path.join(VERIF, "variants"))
import facts as FACTS
import try_patch
import variants

REPO = os.environ.get("RXLINT_REPO", "/repo")


def run_variant(v):
    d = tempfile.mkdtemp(prefix="rxvar-", dir="/var/tmp")
    try:
        for n in ("src", "Cargo.toml", "Cargo.lock", "README.md"):
            s = os.path.join(REPO, n)
            if os.path.isdir(s):
                shutil.copytree(s, os.path.join(d, n))
            elif os.path.exists(s):
                shutil.copy(s, d)
        for (f, old, new) in v["edits"]:
            p = os.path.join(d, f)
            if not os.path.exists(p):
                return ("SKIPPED", "file missing: %s" % f)
            s = open(p).read()
            if s.count(old) != 1:
                return ("SKIPPED", "anchor text occurs %d times in %s" % (s.count(old), f))
            open(p, "w").write(s.replace(old, new, 1))
        try:
            res = try_patch.analyse(d)
        except FACTS.FactsError as e:
            return ("SKIPPED", "variant does not compile: %s" % str(e).strip().splitlines()[-1][:200] if str(e).strip() else "does not compile")
        viol, errs = res.get(v["prop"], ([], []))
        hits = [x for x in viol if x.rule == v["rule"] and (not v["expect"] or any(v["expect"] in str(k) for k in x.key))]
        if hits:
            return ("DETECTED", hits[0].keystr())
        others = [x.rule for x in viol]
        return ("MISSED", "property %s reported %s, fail-closed %s" % (v["prop"], others, errs[:2]))
    finally:
        shutil.rmtree(d, ignore_errors=True)


def main():
    args = sys.argv[1:]
    prop = name = None
    jobs = 8
    i = 0
    while i < len(args):
        if args[i] == "--prop": prop = args[i + 1]; i += 2
        elif args[i] == "--jobs": jobs = int(args[i + 1]); i += 2
        elif args[i] == "--name": name = args[i + 1]; i += 2
        else: i += 1
    vs = [v for v in variants.V if (prop is None or v["prop"] == prop) and (name is None or name in v["name"])]
    with ThreadPoolExecutor(max_workers=jobs) as ex:
        results = list(ex.map(run_variant, vs))
    counts = {"DETECTED": 0, "MISSED": 0, "SKIPPED": 0}
    out = []
    for v, (st, why) in zip(vs, results):
        counts[st] += 1
        out.append(dict(variant=v["name"], property=v["prop"], rule=v["rule"], status=st, detail=why))
        print("%-9s %-40s %s/%s  %s" % (st, v["name"], v["prop"], v["rule"], why[:150]))
    print("variants: %d detected, %d missed, %d skipped" % (counts["DETECTED"], counts["MISSED"], counts["SKIPPED"]))
    if "--json" in args:
        json.dump(out, open(args[args.index("--json") + 1], "w"), indent=1)
    return 1 if counts["MISSED"] else 0


if __name__ == "__main__":
    sys.exit(main())
