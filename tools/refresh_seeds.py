#!/usr/bin/env python3
"""Re-run every registered check against every archived seeded change (scratch copies) and update
the detection fields of seeded/*/meta.json.  Prints a table; exit 1 if a seed is missed by the
check of its own property (except seeds marked expected_miss)."""
import glob, json, os, subprocess, sys
from concurrent.futures import ThreadPoolExecutor
V = os.path.dirname(os.path.dirname(os.path.abspath(__file__)))


def run(d):
    tp = subprocess.run(["python3", os.path.join(V, "tools/try_patch.py"), os.path.join(d, "patch.diff")],
                        stdout=subprocess.PIPE, stderr=subprocess.STDOUT, text=True).stdout
    fl = [l for l in tp.splitlines() if l.startswith("FLAGGED:")]
    flagged = [f for f in (fl[0][len("FLAGGED:"):].split() if fl else []) if f != "(none)"]
    viol = [l for l in tp.splitlines() if " VIOLATION " in l or " FAIL-CLOSED " in l]
    return d, flagged, viol, tp


dirs = sorted(glob.glob(os.path.join(V, "seeded", "*")))
with ThreadPoolExecutor(max_workers=8) as ex:
    res = list(ex.map(run, dirs))
bad = 0
for d, flagged, viol, tp in res:
    mp = os.path.join(d, "meta.json")
    meta = json.load(open(mp))
    meta["detected_by_properties"] = flagged
    own_v = [l for l in viol if l.startswith(meta["property"] + " VIOLATION ")]
    meta["detected_by_own_property_check"] = bool(own_v)          # a VIOLATION line, not merely a fail-closed exit
    meta["own_property_fail_closed_only"] = (meta["property"] in flagged) and not own_v
    meta["reports"] = (own_v[:6] + [l for l in viol if l not in own_v])[:20]
    json.dump(meta, open(mp, "w"), indent=1)
    own = bool(own_v)
    exp = meta.get("expected_miss")
    print("%-8s own=%-5s flagged=%s%s" % (os.path.basename(d), own, flagged, "  (expected miss: %s)" % exp if exp else ""))
    if not own and not exp:
        bad += 1
sys.exit(1 if bad else 0)
