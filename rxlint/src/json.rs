// Minimal JSON value + writer (the driver has zero Cargo dependencies).
pub enum J {
  Null,
  Bool(bool),
  Int(i64),
  Str(String),
  Arr(Vec<J>),
  Obj(Vec<(String, J)>),
}

impl J {
  pub fn obj() -> J {
    J::Obj(Vec::new())
  }
  pub fn str<S: Into<String>>(s: S) -> J {
    J::Str(s.into())
  }
  pub fn set(&mut self, k: &str, v: J) {
    if let J::Obj(o) = self {
      o.push((k.to_string(), v));
    }
  }
  pub fn write(&self, out: &mut String) {
    match self {
      J::Null => out.push_str("null"),
      J::Bool(b) => out.push_str(if *b { "true" } else { "false" }),
      J::Int(i) => out.push_str(&i.to_string()),
      J::Str(s) => esc(s, out),
      J::Arr(a) => {
        out.push('[');
        for (i, x) in a.iter().enumerate() {
          if i > 0 {
            out.push(',');
          }
          x.write(out);
        }
        out.push(']');
      }
      J::Obj(o) => {
        out.push('{');
        for (i, (k, v)) in o.iter().enumerate() {
          if i > 0 {
            out.push(',');
          }
          esc(k, out);
          out.push(':');
          v.write(out);
        }
        out.push('}');
      }
    }
  }
}

fn esc(s: &str, out: &mut String) {
  out.push('"');
  for c in s.chars() {
    match c {
      '"' => out.push_str("\\\""),
      '\\' => out.push_str("\\\\"),
      '\n' => out.push_str("\\n"),
      '\r' => out.push_str("\\r"),
      '\t' => out.push_str("\\t"),
      c if (c as u32) < 0x20 => out.push_str(&format!("\\u{:04x}", c as u32)),
      c => out.push(c),
    }
  }
  out.push('"');
}
