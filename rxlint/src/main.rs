// rxlint: a rustc_private driver that serialises the type-checked program of the
// crate under analysis (MIR after borrowck, before drop elaboration, with resolved
// callees and type structure) into one JSON facts file.  All rules live in
// /verif/rules (Python); this driver decides nothing.
//
// Invoked as RUSTC_WORKSPACE_WRAPPER: argv = [rxlint, <rustc path>, <rustc args..>].
#![feature(rustc_private)]

extern crate rustc_abi;
extern crate rustc_driver;
extern crate rustc_hir;
extern crate rustc_interface;
extern crate rustc_middle;
extern crate rustc_span;

mod json;

use json::J;
use rustc_hir::def::DefKind;
use rustc_hir::def_id::{DefId, LocalDefId};
use rustc_middle::mir::{
  AggregateKind, BasicBlockData, Body, BorrowKind, Operand, Place, ProjectionElem, Rvalue,
  StatementKind, TerminatorKind,
};
use rustc_middle::ty::print::with_no_trimmed_paths;
use rustc_middle::ty::{self, GenericArgsRef, Instance, Ty, TyCtxt, TypingEnv};
use rustc_span::Span;
use std::collections::HashSet;

struct Cb;

impl rustc_driver::Callbacks for Cb {
  fn after_analysis<'tcx>(
    &mut self,
    _compiler: &rustc_interface::interface::Compiler,
    tcx: TyCtxt<'tcx>,
  ) -> rustc_driver::Compilation {
    let out = match std::env::var("RXLINT_OUT") {
      Ok(o) => o,
      Err(_) => return rustc_driver::Compilation::Continue,
    };
    let krate = tcx.crate_name(rustc_hir::def_id::LOCAL_CRATE).to_string();
    let want = std::env::var("RXLINT_CRATE").unwrap_or_else(|_| "another_rxrust".to_string());
    if krate != want {
      return rustc_driver::Compilation::Continue;
    }
    let facts = with_no_trimmed_paths!(extract(tcx, &krate));
    let mut s = String::new();
    facts.write(&mut s);
    std::fs::write(&out, s).expect("rxlint: cannot write facts");
    rustc_driver::Compilation::Continue
  }
}

fn main() {
  let mut args: Vec<String> = std::env::args().collect();
  if args.len() > 1 && !args[1].starts_with('-') {
    // wrapper mode: argv[1] is the path of the real rustc
    args.remove(1);
  }
  rustc_driver::run_compiler(&args, &mut Cb);
}

// ---------------------------------------------------------------------------

fn span_loc(tcx: TyCtxt<'_>, sp: Span) -> (String, usize, usize) {
  let sm = tcx.sess.source_map();
  let sp = sp.source_callsite();
  let lo = sm.lookup_char_pos(sp.lo());
  let hi = sm.lookup_char_pos(sp.hi());
  let file = match &lo.file.name {
    rustc_span::FileName::Real(r) => match r.local_path() {
      Some(p) => p.to_string_lossy().to_string(),
      None => format!("{:?}", lo.file.name),
    },
    other => format!("{:?}", other),
  };
  (file, lo.line, hi.line)
}

fn dpath(tcx: TyCtxt<'_>, d: DefId) -> String {
  tcx.def_path_str(d)
}

struct Cx<'tcx> {
  tcx: TyCtxt<'tcx>,
}

impl<'tcx> Cx<'tcx> {
  // Structured description of a type, depth-limited.
  fn ty_desc(&self, t: Ty<'tcx>, depth: u32) -> J {
    let tcx = self.tcx;
    let mut o = J::obj();
    o.set("s", J::str(format!("{}", t)));
    match *t.kind() {
      ty::Adt(adt, args) => {
        o.set("k", J::str("adt"));
        o.set("path", J::str(dpath(tcx, adt.did())));
        o.set("local", J::Bool(adt.did().is_local()));
        if depth > 0 {
          let mut a = vec![];
          for ga in args.iter() {
            if let Some(tt) = ga.as_type() {
              a.push(self.ty_desc(tt, depth - 1));
            }
          }
          o.set("args", J::Arr(a));
        }
      }
      ty::Ref(_, inner, m) => {
        o.set("k", J::str("ref"));
        o.set("mut", J::Bool(m.is_mut()));
        o.set("inner", self.ty_desc(inner, depth));
      }
      ty::RawPtr(inner, m) => {
        o.set("k", J::str("ptr"));
        o.set("mut", J::Bool(m.is_mut()));
        o.set("inner", self.ty_desc(inner, depth));
      }
      ty::Closure(did, _) => {
        o.set("k", J::str("closure"));
        o.set("def", J::str(dpath(tcx, did)));
      }
      ty::FnDef(did, args) => {
        o.set("k", J::str("fndef"));
        o.set("def", J::str(dpath(tcx, did)));
        o.set("local", J::Bool(did.is_local()));
        if depth > 0 {
          let mut a = vec![];
          for ga in args.iter() {
            if let Some(tt) = ga.as_type() {
              a.push(self.ty_desc(tt, depth - 1));
            }
          }
          o.set("args", J::Arr(a));
        }
      }
      ty::Param(p) => {
        o.set("k", J::str("param"));
        o.set("name", J::str(p.name.to_string()));
      }
      ty::Tuple(ts) => {
        o.set("k", J::str("tuple"));
        if depth > 0 {
          o.set("elems", J::Arr(ts.iter().map(|x| self.ty_desc(x, depth - 1)).collect()));
        }
      }
      ty::Dynamic(..) => {
        o.set("k", J::str("dyn"));
      }
      ty::FnPtr(..) => {
        o.set("k", J::str("fnptr"));
      }
      ty::Bool | ty::Char | ty::Int(_) | ty::Uint(_) | ty::Float(_) | ty::Str | ty::Never => {
        o.set("k", J::str("prim"));
      }
      ty::Array(inner, _) | ty::Slice(inner) => {
        o.set("k", J::str("seq"));
        o.set("inner", self.ty_desc(inner, depth.saturating_sub(1)));
      }
      ty::Alias(ty::AliasTy { kind: ty::Opaque { def_id }, args, .. }) => {
        // `impl Trait` return type: reveal the hidden type (e.g. the closure a private fn returns)
        let hidden = tcx.type_of(def_id).instantiate(tcx, args).skip_norm_wip();
        if depth > 0 && !matches!(hidden.kind(), ty::Alias(..)) {
          let mut h = self.ty_desc(hidden, depth - 1);
          h.set("opaque", J::Bool(true));
          return h;
        }
        o.set("k", J::str("alias"));
      }
      ty::Alias(..) => {
        o.set("k", J::str("alias"));
      }
      _ => {
        o.set("k", J::str("other"));
      }
    }
    o
  }

  // Interior-mutability leaves of a type: every path through ADT fields (cut at dyn,
  // raw pointers, fn pointers) that ends in a std interior-mutable type or in an
  // opaque component (type parameter, dyn).  Each leaf is the chain of ADT paths.
  fn im_leaves(
    &self,
    t: Ty<'tcx>,
    chain: &mut Vec<String>,
    seen: &mut HashSet<String>,
    out: &mut Vec<J>,
    depth: u32,
  ) {
    let tcx = self.tcx;
    if depth > 24 {
      let mut o = J::obj();
      o.set("chain", J::Arr(chain.iter().map(|s| J::str(s.clone())).collect()));
      o.set("end", J::str("depth-limit"));
      out.push(o);
      return;
    }
    let mut leaf = |end: &str, chain: &Vec<String>, out: &mut Vec<J>, ts: String| {
      let mut o = J::obj();
      o.set("chain", J::Arr(chain.iter().map(|s| J::str(s.clone())).collect()));
      o.set("end", J::str(end));
      o.set("ty", J::str(ts));
      out.push(o);
    };
    match *t.kind() {
      ty::Adt(adt, args) => {
        let p = dpath(tcx, adt.did());
        const IM: &[&str] = &[
          "std::sync::RwLock",
          "std::sync::Mutex",
          "std::sync::Condvar",
          "std::sync::OnceLock",
          "std::sync::Once",
          "std::cell::Cell",
          "std::cell::RefCell",
          "std::cell::UnsafeCell",
          "std::cell::OnceCell",
          "std::sync::poison::RwLock",
          "std::sync::poison::Mutex",
          "std::sync::poison::Condvar",
          "std::sync::nonpoison::RwLock",
          "std::sync::nonpoison::Mutex",
        ];
        if IM.contains(&p.as_str()) || p.starts_with("std::sync::atomic::Atomic") {
          chain.push(p);
          leaf("lock", chain, out, format!("{}", t));
          chain.pop();
          return;
        }
        let key = format!("{}", t);
        if !seen.insert(key.clone()) {
          return;
        }
        chain.push(p.clone());
        if p == "std::marker::PhantomData" {
          // owns nothing
        } else if !adt.did().is_local() {
          // foreign container (Arc, Box, Vec, VecDeque, HashMap, Option, ..): what it can
          // hold is described by its type arguments.
          for ga in args.iter() {
            if let Some(tt) = ga.as_type() {
              self.im_leaves(tt, chain, seen, out, depth + 1);
            }
          }
        } else {
          for v in adt.variants().iter() {
            for f in v.fields.iter() {
              let ft = f.ty(tcx, args);
              self.im_leaves(ft, chain, seen, out, depth + 1);
            }
          }
        }
        chain.pop();
        seen.remove(&key);
      }
      ty::Ref(_, inner, _) => self.im_leaves(inner, chain, seen, out, depth + 1),
      ty::Tuple(ts) => {
        for x in ts.iter() {
          self.im_leaves(x, chain, seen, out, depth + 1);
        }
      }
      ty::Array(inner, _) | ty::Slice(inner) => self.im_leaves(inner, chain, seen, out, depth + 1),
      ty::Closure(did, cargs) => {
        chain.push(format!("closure:{}", dpath(tcx, did)));
        for ut in cargs.as_closure().upvar_tys().iter() {
          self.im_leaves(ut, chain, seen, out, depth + 1);
        }
        chain.pop();
      }
      ty::Param(p) => leaf("param", chain, out, p.name.to_string()),
      ty::Dynamic(..) => leaf("dyn", chain, out, format!("{}", t)),
      ty::Alias(..) => leaf("alias", chain, out, format!("{}", t)),
      _ => {}
    }
  }

  fn place(&self, body: &Body<'tcx>, p: &Place<'tcx>) -> J {
    let tcx = self.tcx;
    let mut v = vec![J::Int(p.local.as_usize() as i64)];
    let mut pty = rustc_middle::mir::PlaceTy::from_ty(body.local_decls[p.local].ty);
    for elem in p.projection.iter() {
      match elem {
        ProjectionElem::Deref => v.push(J::str("*")),
        ProjectionElem::Field(idx, _) => {
          let mut name: Option<String> = None;
          if let ty::Adt(adt, _) = pty.ty.kind() {
            let vi = pty.variant_index.unwrap_or(rustc_abi::FIRST_VARIANT);
            if (vi.as_usize()) < adt.variants().len() {
              let var = adt.variant(vi);
              if idx.as_usize() < var.fields.len() {
                // field name, qualified by the owning ADT when it is a local struct
                if adt.did().is_local() && adt.is_struct() {
                  name = Some(format!("{}@{}", var.fields[idx].name, dpath(tcx, adt.did())));
                } else {
                  name = Some(var.fields[idx].name.to_string());
                }
              }
            }
          }
          match name {
            Some(n) => v.push(J::str(format!(".{}:{}", idx.as_usize(), n))),
            None => v.push(J::str(format!(".{}", idx.as_usize()))),
          }
        }
        ProjectionElem::Downcast(name, vi) => {
          let n = name.map(|s| s.to_string()).unwrap_or_else(|| format!("{}", vi.as_usize()));
          v.push(J::str(format!("@{}", n)))
        }
        ProjectionElem::Index(_)
        | ProjectionElem::ConstantIndex { .. }
        | ProjectionElem::Subslice { .. } => v.push(J::str("[]")),
        _ => v.push(J::str("?")),
      }
      pty = pty.projection_ty(tcx, elem);
    }
    J::Arr(v)
  }

  fn operand(&self, body: &Body<'tcx>, op: &Operand<'tcx>, with_ty: bool) -> J {
    let tcx = self.tcx;
    let mut o = J::obj();
    match op {
      Operand::Copy(p) => {
        o.set("k", J::str("copy"));
        o.set("p", self.place(body, p));
      }
      Operand::Move(p) => {
        o.set("k", J::str("move"));
        o.set("p", self.place(body, p));
      }
      Operand::Constant(c) => {
        o.set("k", J::str("const"));
        let t = c.const_.ty();
        o.set("s", J::str(format!("{}", c.const_)));
        if let ty::FnDef(did, _) = *t.kind() {
          o.set("fn", J::str(dpath(tcx, did)));
        }
        if let rustc_middle::mir::Const::Unevaluated(uv, _) = c.const_ {
          if uv.promoted.is_none() {
            o.set("cdef", J::str(dpath(tcx, uv.def)));
          }
        }
        let mut si_opt = c.const_.try_to_scalar_int();
        if si_opt.is_none() && (t.is_integral() || t.is_bool()) {
          // a named constant (`const FIRST: i32 = 0;`) is still unevaluated at mir-opt-level 0: evaluate it
          // (only non-generic integer / bool constants; a failure leaves the operand symbolic)
          if let rustc_middle::mir::Const::Unevaluated(uv, _) = c.const_ {
            if uv.args.is_empty() {
              let tenv = TypingEnv::post_analysis(tcx, body.source.def_id());
              si_opt = c.const_.try_eval_scalar_int(tcx, tenv);
              if let Some(si) = si_opt {
                if t.is_bool() {
                  o.set("s", J::str(if si.to_bits(si.size()) != 0 { "true" } else { "false" }));
                  o.set("named", J::str(format!("{}", c.const_)));
                }
              }
            }
          }
        }
        if let Some(si) = si_opt {
          if si.size().bytes() <= 8 {
            o.set("int", J::Int(si.to_bits(si.size()) as i64));
          }
        }
      }
      #[allow(unreachable_patterns)]
      _ => {
        o.set("k", J::str("other"));
      }
    }
    if with_ty {
      let t = op.ty(&body.local_decls, tcx);
      o.set("t", self.ty_desc(t, 2));
    }
    o
  }

  fn rvalue(&self, body: &Body<'tcx>, rv: &Rvalue<'tcx>) -> J {
    let tcx = self.tcx;
    let mut o = J::obj();
    match rv {
      Rvalue::Use(op, ..) => {
        o.set("k", J::str("use"));
        o.set("op", self.operand(body, op, false));
      }
      Rvalue::Ref(_, bk, p) => {
        o.set("k", J::str("ref"));
        o.set("mut", J::Bool(matches!(bk, BorrowKind::Mut { .. })));
        o.set("fake", J::Bool(matches!(bk, BorrowKind::Fake(_))));
        o.set("p", self.place(body, p));
      }
      Rvalue::RawPtr(_, p) => {
        o.set("k", J::str("rawptr"));
        o.set("p", self.place(body, p));
      }
      Rvalue::Cast(_, op, t) => {
        o.set("k", J::str("cast"));
        o.set("op", self.operand(body, op, true));
        o.set("ty", self.ty_desc(*t, 1));
      }
      Rvalue::BinaryOp(bop, ab) => {
        o.set("k", J::str("binop"));
        o.set("op", J::str(format!("{:?}", bop)));
        o.set("a", self.operand(body, &ab.0, false));
        o.set("b", self.operand(body, &ab.1, false));
      }
      Rvalue::UnaryOp(uop, a) => {
        o.set("k", J::str("unop"));
        o.set("op", J::str(format!("{:?}", uop)));
        o.set("a", self.operand(body, a, false));
      }
      Rvalue::Discriminant(p) => {
        o.set("k", J::str("discr"));
        o.set("p", self.place(body, p));
      }
      Rvalue::CopyForDeref(p) => {
        o.set("k", J::str("use"));
        let mut op = J::obj();
        op.set("k", J::str("copy"));
        op.set("p", self.place(body, p));
        o.set("op", op);
      }
      Rvalue::Aggregate(ak, ops) => {
        o.set("k", J::str("agg"));
        match &**ak {
          AggregateKind::Closure(did, _) => {
            o.set("ak", J::str("closure"));
            o.set("def", J::str(dpath(tcx, *did)));
          }
          AggregateKind::Adt(did, vi, _, _, _) => {
            o.set("ak", J::str("adt"));
            o.set("def", J::str(dpath(tcx, *did)));
            let adt = tcx.adt_def(*did);
            o.set("variant", J::str(adt.variant(*vi).name.to_string()));
            o.set("vidx", J::Int(vi.as_usize() as i64));
          }
          AggregateKind::Tuple => {
            o.set("ak", J::str("tuple"));
          }
          AggregateKind::Array(_) => {
            o.set("ak", J::str("array"));
          }
          _ => {
            o.set("ak", J::str("other"));
          }
        }
        o.set("ops", J::Arr(ops.iter().map(|x| self.operand(body, x, true)).collect()));
      }
      Rvalue::Repeat(op, _) => {
        o.set("k", J::str("repeat"));
        o.set("op", self.operand(body, op, false));
      }
      _ => {
        o.set("k", J::str("other"));
        o.set("s", J::str(format!("{:?}", rv)));
      }
    }
    o
  }

  fn callee(&self, body: &Body<'tcx>, tenv: TypingEnv<'tcx>, func: &Operand<'tcx>) -> J {
    let tcx = self.tcx;
    let mut o = J::obj();
    let fty = func.ty(&body.local_decls, tcx);
    if let ty::FnDef(did, args) = *fty.kind() {
      o.set("k", J::str("def"));
      o.set("path", J::str(dpath(tcx, did)));
      o.set("full", J::str(tcx.def_path_str_with_args(did, args)));
      o.set("local", J::Bool(did.is_local()));
      if let Some(n) = tcx.opt_item_name(did) {
        o.set("name", J::str(n.to_string()));
      }
      if let Some(tr) = tcx.trait_of_assoc(did) {
        o.set("trait", J::str(dpath(tcx, tr)));
      }
      if let Some(im) = tcx.impl_of_assoc(did) {
        let st = tcx.type_of(im).instantiate_identity().skip_norm_wip();
        o.set("impl_self", self.ty_desc(st, 0));
      }
      let mut ga = vec![];
      for a in args.iter() {
        if let Some(t) = a.as_type() {
          ga.push(self.ty_desc(t, 1));
        }
      }
      o.set("targs", J::Arr(ga));
      o.set("inst", self.resolve(tenv, did, args));
    } else {
      o.set("k", J::str("indirect"));
      o.set("op", self.operand(body, func, true));
    }
    o
  }

  fn resolve(&self, tenv: TypingEnv<'tcx>, did: DefId, args: GenericArgsRef<'tcx>) -> J {
    let tcx = self.tcx;
    let r = std::panic::catch_unwind(std::panic::AssertUnwindSafe(|| {
      Instance::try_resolve(tcx, tenv, did, args)
    }));
    match r {
      Ok(Ok(Some(inst))) => {
        let mut o = J::obj();
        let idid = inst.def_id();
        o.set("path", J::str(dpath(tcx, idid)));
        o.set("local", J::Bool(idid.is_local()));
        let kind = match inst.def {
          ty::InstanceKind::Item(_) => "item",
          ty::InstanceKind::Virtual(..) => "virtual",
          ty::InstanceKind::ClosureOnceShim { .. } => "closure_once_shim",
          ty::InstanceKind::FnPtrShim(..) => "fnptr_shim",
          ty::InstanceKind::CloneShim(..) => "clone_shim",
          ty::InstanceKind::DropGlue(..) => "drop_glue",
          ty::InstanceKind::Intrinsic(..) => "intrinsic",
          ty::InstanceKind::ReifyShim(..) => "reify_shim",
          _ => "other",
        };
        o.set("kind", J::str(kind));
        o.set("closure", J::Bool(tcx.is_closure_like(idid)));
        o
      }
      _ => J::Null,
    }
  }

  fn block(&self, body: &Body<'tcx>, tenv: TypingEnv<'tcx>, bb: &BasicBlockData<'tcx>) -> J {
    let tcx = self.tcx;
    let mut o = J::obj();
    o.set("cleanup", J::Bool(bb.is_cleanup));
    let mut stmts = vec![];
    for st in bb.statements.iter() {
      let (_, line, _) = span_loc(tcx, st.source_info.span);
      match &st.kind {
        StatementKind::Assign(b) => {
          let (p, rv) = &**b;
          let mut s = J::obj();
          s.set("k", J::str("assign"));
          s.set("lhs", self.place(body, p));
          s.set("rv", self.rvalue(body, rv));
          s.set("line", J::Int(line as i64));
          stmts.push(s);
        }
        StatementKind::StorageDead(l) => {
          let mut s = J::obj();
          s.set("k", J::str("dead"));
          s.set("l", J::Int(l.as_usize() as i64));
          stmts.push(s);
        }
        StatementKind::StorageLive(l) => {
          let mut s = J::obj();
          s.set("k", J::str("live"));
          s.set("l", J::Int(l.as_usize() as i64));
          stmts.push(s);
        }
        StatementKind::SetDiscriminant { place, variant_index } => {
          let mut s = J::obj();
          s.set("k", J::str("setdiscr"));
          s.set("lhs", self.place(body, place));
          s.set("vidx", J::Int(variant_index.as_usize() as i64));
          stmts.push(s);
        }
        _ => {}
      }
    }
    o.set("stmts", J::Arr(stmts));
    let term = bb.terminator();
    let (_, line, _) = span_loc(tcx, term.source_info.span);
    let mut t = J::obj();
    t.set("line", J::Int(line as i64));
    t.set("exp", J::Bool(term.source_info.span.from_expansion()));
    let bbi = |b: rustc_middle::mir::BasicBlock| J::Int(b.as_usize() as i64);
    match &term.kind {
      TerminatorKind::Goto { target } => {
        t.set("k", J::str("goto"));
        t.set("target", bbi(*target));
      }
      TerminatorKind::SwitchInt { discr, targets } => {
        t.set("k", J::str("switch"));
        t.set("discr", self.operand(body, discr, true));
        let mut ts = vec![];
        for (v, b) in targets.iter() {
          ts.push(J::Arr(vec![J::Int(v as i64), bbi(b)]));
        }
        t.set("targets", J::Arr(ts));
        t.set("otherwise", bbi(targets.otherwise()));
      }
      TerminatorKind::Return => {
        t.set("k", J::str("return"));
      }
      TerminatorKind::Unreachable => {
        t.set("k", J::str("unreachable"));
      }
      TerminatorKind::UnwindResume | TerminatorKind::UnwindTerminate(_) => {
        t.set("k", J::str("resume"));
      }
      TerminatorKind::Drop { place, target, .. } => {
        t.set("k", J::str("drop"));
        t.set("p", self.place(body, place));
        t.set("target", bbi(*target));
      }
      TerminatorKind::Call { func, args, destination, target, .. } => {
        t.set("k", J::str("call"));
        t.set("fn", self.callee(body, tenv, func));
        t.set(
          "args",
          J::Arr(args.iter().map(|a| self.operand(body, &a.node, true)).collect()),
        );
        t.set("dest", self.place(body, destination));
        t.set(
          "dest_t",
          self.ty_desc(destination.ty(&body.local_decls, tcx).ty, 2),
        );
        match target {
          Some(b) => t.set("target", bbi(*b)),
          None => t.set("target", J::Null),
        }
      }
      TerminatorKind::Assert { cond, target, .. } => {
        t.set("k", J::str("assert"));
        t.set("cond", self.operand(body, cond, false));
        t.set("target", bbi(*target));
      }
      TerminatorKind::FalseEdge { real_target, imaginary_target } => {
        t.set("k", J::str("falseedge"));
        t.set("target", bbi(*real_target));
        t.set("imag", bbi(*imaginary_target));
      }
      TerminatorKind::FalseUnwind { real_target, .. } => {
        t.set("k", J::str("goto"));
        t.set("target", bbi(*real_target));
      }
      other => {
        t.set("k", J::str("other"));
        t.set("s", J::str(format!("{:?}", other)));
      }
    }
    o.set("term", t);
    o
  }

  fn body(&self, ldid: LocalDefId) -> Option<J> {
    let tcx = self.tcx;
    let did = ldid.to_def_id();
    let kind = tcx.def_kind(did);
    let kname = match kind {
      DefKind::Fn => "fn",
      DefKind::AssocFn => "assoc",
      DefKind::Closure => "closure",
      // named constants: their initialiser is how a `const INITIAL: Option<T> = None;` handed to a cell's constructor is read
      DefKind::Const { .. } | DefKind::AssocConst { .. } => "const",
      _ => return None,
    };
    // (a constant's promoted MIR has already been consumed by const evaluation: read the CTFE body instead)
    let steal_guard;
    let body: &Body<'tcx> = if kname == "const" {
      tcx.mir_for_ctfe(ldid)
    } else {
      let (steal, _) = tcx.mir_promoted(ldid);
      steal_guard = steal.borrow();
      &steal_guard
    };
    let tenv = TypingEnv::post_analysis(tcx, did);

    let mut o = J::obj();
    o.set("id", J::str(dpath(tcx, did)));
    o.set("kind", J::str(kname));
    let (file, line, end) = span_loc(tcx, body.span);
    o.set("file", J::str(file));
    o.set("line", J::Int(line as i64));
    o.set("end_line", J::Int(end as i64));
    o.set("exp", J::Bool(body.span.from_expansion()));
    let parent = tcx.local_parent(ldid).to_def_id();
    o.set("parent", J::str(dpath(tcx, parent)));
    o.set("parent_kind", J::str(format!("{:?}", tcx.def_kind(parent))));
    o.set("root", J::str(dpath(tcx, tcx.typeck_root_def_id(did))));
    if matches!(kind, DefKind::Fn | DefKind::AssocFn) {
      let vis = tcx.visibility(did);
      let v = match vis {
        ty::Visibility::Public => "pub".to_string(),
        ty::Visibility::Restricted(m) => {
          if m.is_crate_root() {
            "crate".to_string()
          } else {
            format!("in:{}", dpath(tcx, m))
          }
        }
      };
      o.set("vis", J::str(v));
      if let Some(n) = tcx.opt_item_name(did) {
        o.set("name", J::str(n.to_string()));
      }
    }
    if kind == DefKind::AssocFn {
      if let Some(im) = tcx.impl_of_assoc(did) {
        let st = tcx.type_of(im).instantiate_identity().skip_norm_wip();
        o.set("impl_self", self.ty_desc(st, 1));
        if let Some(tr) = tcx.impl_opt_trait_ref(im) {
          o.set("impl_trait", J::str(dpath(tcx, tr.skip_binder().def_id)));
        }
      }
    }
    o.set("argc", J::Int(body.arg_count as i64));

    // locals
    let mut names: Vec<Option<String>> = vec![None; body.local_decls.len()];
    let mut debug = vec![];
    for vdi in body.var_debug_info.iter() {
      if let rustc_middle::mir::VarDebugInfoContents::Place(p) = &vdi.value {
        if p.projection.is_empty() {
          names[p.local.as_usize()] = Some(vdi.name.to_string());
        }
        let mut d = J::obj();
        d.set("name", J::str(vdi.name.to_string()));
        d.set("p", self.place(body, p));
        debug.push(d);
      }
    }
    o.set("debug", J::Arr(debug));
    let mut locals = vec![];
    for (i, ld) in body.local_decls.iter_enumerated() {
      let mut l = J::obj();
      l.set("ty", self.ty_desc(ld.ty, 3));
      if let Some(n) = &names[i.as_usize()] {
        l.set("name", J::str(n.clone()));
      }
      let (_, ln, _) = span_loc(tcx, ld.source_info.span);
      l.set("line", J::Int(ln as i64));
      l.set("user", J::Bool(kname != "const" && ld.is_user_variable()));
      locals.push(l);
    }
    o.set("locals", J::Arr(locals));

    // closure facts
    if kind == DefKind::Closure {
      let cty = tcx.type_of(did).instantiate_identity().skip_norm_wip();
      if let ty::Closure(_, cargs) = *cty.kind() {
        let ca = cargs.as_closure();
        o.set("closure_kind", J::str(format!("{:?}", ca.kind())));
        let caps = tcx.closure_captures(ldid);
        let mut ups = vec![];
        for (i, ut) in ca.upvar_tys().iter().enumerate() {
          let mut u = J::obj();
          u.set("idx", J::Int(i as i64));
          u.set("ty", self.ty_desc(ut, 3));
          if let Some(c) = caps.get(i) {
            u.set("name", J::str(c.to_symbol().to_string()));
            u.set(
              "byref",
              J::Bool(matches!(c.info.capture_kind, ty::UpvarCapture::ByRef(_))),
            );
          }
          let mut leaves = vec![];
          self.im_leaves(ut, &mut vec![], &mut HashSet::new(), &mut leaves, 0);
          u.set("leaves", J::Arr(leaves));
          ups.push(u);
        }
        o.set("upvars", J::Arr(ups));
      }
    }

    let mut blocks = vec![];
    for bb in body.basic_blocks.iter() {
      blocks.push(self.block(body, tenv, bb));
    }
    o.set("blocks", J::Arr(blocks));
    Some(o)
  }

  fn adts(&self) -> J {
    let tcx = self.tcx;
    let mut v = vec![];
    for id in tcx.hir_free_items() {
      let did = id.owner_id.to_def_id();
      if !matches!(tcx.def_kind(did), DefKind::Struct | DefKind::Enum) {
        continue;
      }
      let adt = tcx.adt_def(did);
      let mut o = J::obj();
      o.set("path", J::str(dpath(tcx, did)));
      o.set("kind", J::str(format!("{:?}", tcx.def_kind(did))));
      let (file, line, _) = span_loc(tcx, tcx.def_span(did));
      o.set("file", J::str(file));
      o.set("line", J::Int(line as i64));
      let mut vars = vec![];
      for var in adt.variants().iter() {
        let mut vo = J::obj();
        vo.set("name", J::str(var.name.to_string()));
        let mut fs = vec![];
        for f in var.fields.iter() {
          let mut fo = J::obj();
          fo.set("name", J::str(f.name.to_string()));
          let ft = tcx.type_of(f.did).instantiate_identity().skip_norm_wip();
          fo.set("ty", self.ty_desc(ft, 3));
          fo.set("pub", J::Bool(f.vis.is_public()));
          let mut leaves = vec![];
          self.im_leaves(ft, &mut vec![], &mut HashSet::new(), &mut leaves, 0);
          fo.set("leaves", J::Arr(leaves));
          fs.push(fo);
        }
        vo.set("fields", J::Arr(fs));
        vars.push(vo);
      }
      o.set("variants", J::Arr(vars));
      v.push(o);
    }
    J::Arr(v)
  }
}

fn extract<'tcx>(tcx: TyCtxt<'tcx>, krate: &str) -> J {
  let cx = Cx { tcx };
  let mut root = J::obj();
  root.set("crate", J::str(krate.to_string()));
  root.set("rxlint_version", J::Int(1));
  let mut features = vec![];
  for (name, val) in tcx.sess.config.iter() {
    if name.as_str() == "feature" {
      if let Some(v) = val {
        features.push(J::str(v.to_string()));
      }
    }
  }
  root.set("features", J::Arr(features));
  root.set("cfg_test", J::Bool(tcx.sess.is_test_crate()));
  root.set("adts", cx.adts());
  let mut bodies = vec![];
  let owners: Vec<LocalDefId> = tcx.hir_body_owners().collect();
  for ldid in owners {
    if let Some(b) = cx.body(ldid) {
      bodies.push(b);
    }
  }
  root.set("bodies", J::Arr(bodies));
  root
}
