"""Subject map discipline J1-J6 (C10/C12), connectable rules P1-P5 (C13), atomic decide-under-one-
guard D1/D2 (C11), A19a per-kind atomic terminal take (C19)."""
from core import RuleResult
from effects import *
from rules_c17 import _roots, _any_alias

SUBJ = "subjects::subject::Subject"
MAPOPS_MUT = ("insert", "remove", "clear", "drain", "retain", "get_mut", "entry", "extend", "remove_entry", "iter_mut", "values_mut")
HM = "std::collections::HashMap::"


def _hits(P, b, prov, field):
    for t in prov:
        for g in P.global_cell(b, t, through_helpers="add"):
            if field in g[3]:
                return True
    return False


def _acq_field(P, b, field):
    acqs, held, sh = b.guards()
    return {bb: a for bb, a in acqs.items() if _hits(P, b, a["cell"], field)}, held, sh


def _subject_bodies(P):
    out = []
    for b in P.bodies.values():
        if b.nid.startswith(SUBJ + "::"):
            out.append(b)
    return out


def source_closure_of(P, method_nid):
    """the closure a method hands to Observable::create (looked up in the method's inlined view)"""
    mb = P.body(method_nid)
    if mb is None:
        return None
    for c in mb.calls:
        if atom(c) == "create":
            cl = c.arg_closure(0)
            if cl in P.bodies:
                return P.bodies[cl]
    return None


def j_rules(P, E):
    r = RuleResult("J", "Subject observer-map discipline (J1-J6)")
    src = source_closure_of(P, SUBJ + "::observable")
    if src is None:
        r.error("anchor missing: Subject::observable source closure")
        return r
    teardown = None
    for c in src.calls:          # (helpers are inlined into src)
        if atom(c) == "set_on_unsubscribe":
            cl = c.arg_closure(1)
            if cl in P.bodies:
                teardown = P.bodies[cl]
    if teardown is None:
        r.error("anchor missing: Subject::observable teardown closure")
        return r

    # ---- J1: fresh serial under one W guard; insert key == removed key
    sa, held, sh = _acq_field(P, src, "serial")
    r.instance(("J1", src.nid, "serial"), True, "serial acquisitions %s" % {k: v["mode"] for k, v in sa.items()})
    if len(sa) != 1 or list(sa.values())[0]["mode"] not in ("W", "M"):
        r.violate(("J1", src.nid, "serial not taken under one write guard"),
                  "the observer key is not produced by one write-locked increment-and-read: two subscribers can get the "
                  "same key and overwrite/remove each other", body=src)
    ins = [c for c in src.calls if c.path == HM + "insert" and _hits(P, src, src.operand_prov(c.args[0]), "observers")]
    rem = [c for c in teardown.calls if c.path == HM + "remove" and _hits(P, teardown, teardown.operand_prov(c.args[0]), "observers")]
    if not ins or not rem:
        r.error("J1: insert/remove on observers not found")
    else:
        ik = _roots(P, src, src.operand_prov(ins[0].args[1]))
        rk = _roots(P, teardown, teardown.operand_prov(rem[0].args[1]))
        r.instance(("J1", src.nid, "keys"), True, "insert key %s / remove key %s" % (sorted(P.cell_name(g) for g in ik), sorted(P.cell_name(g) for g in rk)))
        if not _any_alias(ik, rk):
            r.violate(("J1", src.nid, "teardown removes a different key"),
                      "the key removed by the observer's teardown is not the key it was inserted under", body=teardown, line=rem[0].line)
    # the teardown removes the key its observer was REGISTERED under: a value fixed at subscription (captured), never a fresh read
    # of the counter (which by then names the most recent subscriber)
    for tb in [teardown] + P.descendants(teardown):
        ta, _, _ = _acq_field(P, tb, "serial")
        r.instance(("J1", tb.nid, "teardown key"), True, "counter acquisitions in the teardown: %d" % len(ta))
        if ta:
            r.violate(("J1", src.nid, "teardown re-reads the key counter"),
                      "the observer's teardown reads the key counter when it runs instead of using the key captured at subscription: by "
                      "then the counter names a later subscriber, whose registration is removed instead", body=tb)
    # the counter advances from itself only (an increment): a value derived from anything else
    # (the size of the map, ..) can repeat while an earlier holder of that key is still registered
    for i in sorted(src.reach):
        for s_ in src.blocks[i]["stmts"]:
            if s_["k"] == "assign" and len(s_["lhs"]) > 1 and "*" in s_["lhs"] and _hits(P, src, src.place_prov(s_["lhs"]), "serial"):
                rv = s_["rv"]
                ops = [rv[k] for k in ("a", "b", "op") if isinstance(rv.get(k), dict)]
                leaves = set()
                for o in ops:
                    leaves |= src.value_sources(src.operand_prov(o))
                foreign = [t for t in leaves if t[0] != "const" and not _hits(P, src, [t], "serial")]
                r.instance(("J1", src.nid, "advance"), True, "serial store fed by %s" % sorted(src.term_name(t) for t in leaves))
                if not foreign and not src.advances(rv):
                    r.violate(("J1", src.nid, "serial does not move"),
                              "the value stored back into the key counter is not the old one plus a non-zero constant (steps found: %s): "
                              "consecutive subscribers get the same key, the later one overwrites the earlier one's registration"
                              % src.arith_steps(rv), body=src, line=s_.get("line"))
                if foreign:
                    r.violate(("J1", src.nid, "serial not advanced from itself"),
                              "the new value of the key counter derives from %s, not only from the counter: a key can be "
                              "handed out again while its earlier holder is still registered (the newcomer overwrites it, "
                              "either teardown removes the other)" % sorted(src.term_name(t) for t in foreign),
                              body=src, line=s_.get("line"))
    # ---- J1 (cont.): the key counter is written only by the increment in the subscribe path
    for b in P.bodies.values():
        if b.id in P.absorbed or not (b.nid.startswith("subjects::subject::") or b.nid.startswith("<subjects::subject::")):
            continue
        if b.kind == "assoc" and b.name == "new":
            continue
        for i in sorted(b.reach):
            for s_ in b.blocks[i]["stmts"]:
                if s_["k"] == "assign" and len(s_["lhs"]) > 1 and "*" in s_["lhs"] and _hits(P, b, b.place_prov(s_["lhs"]), "serial"):
                    rv = s_["rv"]
                    ops = [rv[k] for k in ("a", "b", "op") if isinstance(rv.get(k), dict)]
                    leaves = set()
                    for o in ops:
                        leaves |= b.value_sources(b.operand_prov(o))
                    from_self = any(t[0] != "const" and _hits(P, b, [t], "serial") for t in leaves)
                    r.instance(("J1", b.nid, "counter store"), True, None)
                    if b.id != src.id or not from_self:
                        r.violate(("J1", b.nid, "key counter reset"),
                                  "the key counter is stored in %s with a value that does not continue the count: keys of "
                                  "subscribers that are still registered (or whose teardown is still pending) are handed out again, "
                                  "and a stale teardown removes the newcomer" % b.nid, body=b, line=s_.get("line"))
        for c in b.calls:
            if atomic_op(c.path) == "STORE" and c.args and _hits(P, b, b.operand_prov(c.args[0]), "serial"):
                r.violate(("J1", b.nid, "key counter reset"), "the key counter is overwritten by an atomic store", body=b, line=c.line)
    # ---- J2: who may write the map
    n = 0
    for b in P.bodies.values():
        if b.id in P.absorbed:
            continue       # private helpers are judged where they are inlined
        for c in b.calls:
            if c.path.startswith(HM) and c.args and _hits(P, b, b.operand_prov(c.args[0]), "observers"):
                op = c.path[len(HM):]
                if not b.nid.startswith(SUBJ + "::"):
                    r.violate(("J2", b.nid, "observers touched outside Subject"), "observer map accessed outside subjects::subject", body=b, line=c.line)
                    continue
                n += 1
                r.instance(("J2", b.nid, op), True, None)
                if op in MAPOPS_MUT:
                    ok = (op == "insert" and b.id == src.id) or (op == "remove" and b.id == teardown.id) or \
                         (op in ("clear", "drain") and b.nid in (SUBJ + "::error", SUBJ + "::complete"))
                    if not ok:
                        r.violate(("J2", b.nid, "unexpected map mutation " + op),
                                  "the observer map is mutated by %s in %s (allowed: insert on subscribe, remove in teardown, "
                                  "clear in error/complete)" % (op, b.nid), body=b, line=c.line)
    if n < 6:
        r.error("J2: only %d observer-map operations found (floor 6)" % n)

    # ---- J3: deliveries with no observers guard live, over a snapshot
    for name in ("next", "error", "complete"):
        mb = P.body(SUBJ + "::" + name)
        if mb is None:
            r.error("anchor missing: Subject::%s" % name)
            continue
        oa, held, _ = _acq_field(P, mb, "observers")
        deliveries = []
        for c in mb.calls:
            if c.path == "std::iter::Iterator::for_each":
                for t in E.inline_targets(c):
                    if any(atom(x) in ("obs_next", "obs_error", "obs_complete") for x in t.calls):
                        deliveries.append(c)
            elif atom(c) in ("obs_next", "obs_error", "obs_complete"):
                deliveries.append(c)
        r.instance(("J3", mb.nid), True, "deliveries %s" % [c.bb for c in deliveries])
        if not deliveries:
            r.violate(("J3", mb.nid, "no delivery"), "Subject::%s delivers to nobody" % name, body=mb)
        for c in deliveries:
            if held.get(c.bb, set()) & set(oa):
                r.violate(("J3", mb.nid, "delivery under the map guard"),
                          "observers are called while the observer-map guard is held: a callback that subscribes/unsubscribes "
                          "deadlocks", body=mb, line=c.line)
            # the iterated collection must not be a view into the map itself (then the guard would
            # have to be live): a snapshot built earlier is what is iterated
            if c.path == "std::iter::Iterator::for_each" and c.args:
                direct = False
                for t in mb.operand_prov(c.args[0]):
                    # provenance through a lock acquisition of `observers` without a copy (clone/collect)
                    if t[0] == "param" and "observers" in t[2] and "[]" in t[2]:
                        direct = True
                if direct and not (held.get(c.bb, set()) & set(oa)):
                    r.violate(("J3", mb.nid, "delivery over the live map"), "delivery iterates the map itself", body=mb, line=c.line)
        # J4: terminals clear before the first delivery
        if name in ("error", "complete"):
            clears = [c.bb for c in mb.calls if c.path in (HM + "clear", HM + "drain") and _hits(P, mb, mb.operand_prov(c.args[0]), "observers")]
            r.instance(("J4", mb.nid), True, "clear blocks %s" % clears)
            if not clears:
                r.violate(("J4", mb.nid, "map not cleared"), "Subject::%s keeps its observers after the terminal" % name, body=mb)
            for c in deliveries:
                if clears and Effects.path_avoiding(mb, [c.bb], clears) is not None:
                    r.violate(("J4", mb.nid, "delivery before clear"),
                              "the terminal is delivered before the map is cleared: a re-entrant next()/subscribe sees the dead observers", body=mb, line=c.line)
            # snapshot taken before the clear
            # the snapshot = the acquisitions of the map that precede the clear (helpers are inlined)
            snaps = [bb for bb in oa if bb not in clears and not any(held.get(cb, set()) & {bb} for cb in clears)]
            for cb in clears:
                if snaps and Effects.path_avoiding(mb, [cb], snaps) is not None:
                    r.violate(("J4", mb.nid, "clear before snapshot"), "the map is cleared before the snapshot is taken: nobody receives the terminal", body=mb)
    # every Subject emission method locks the map to take its snapshot
    for name in ("next", "error", "complete"):
        mb = P.body(SUBJ + "::" + name)
        if mb is None:
            continue
        oa, _, _ = _acq_field(P, mb, "observers")
        r.instance(("J3", mb.nid, "snapshot lock"), True, "map acquisitions %s" % {k: v["mode"] for k, v in oa.items()})
        if not oa:
            r.violate(("J3", mb.nid, "snapshot without lock"), "Subject::%s reads the observer map without locking it" % name, body=mb)

    # ---- J5: teardown installed before insertion
    sou = [c.bb for c in src.calls if atom(c) == "set_on_unsubscribe"]
    r.instance(("J5", src.nid), True, "set_on_unsubscribe %s insert %s" % (sou, [c.bb for c in ins]))
    for c in ins:
        if not sou or Effects.path_avoiding(src, [c.bb], sou) is not None:
            r.violate(("J5", src.nid, "insert before teardown is installed"),
                      "the observer is inserted before its teardown is installed: an emission in between that unsubscribes it "
                      "leaves it in the map forever", body=src, line=c.line)

    # ---- J9: the subscriber-count hooks are live: stored by set_on_(un)subscribe, invoked with the map's size after the
    # insert (subscribe path) / after the remove (teardown), and ReplaySubject forwards them to its inner Subject;
    # the teardown of a Behavior/Replay subscriber releases its relay.  (ref_count / replay connect through these hooks.)
    for (meth, field) in (("set_on_subscribe", "on_subscribe"), ("set_on_unsubscribe", "on_unsubscribe")):
        mb = P.body(SUBJ + "::" + meth)
        if mb is None:
            r.error("anchor missing: Subject::%s" % meth)
            continue
        stores = False
        for i in sorted(mb.reach):
            for s_ in mb.blocks[i]["stmts"]:
                if s_["k"] == "assign" and len(s_["lhs"]) > 1 and "*" in s_["lhs"] and _hits(P, mb, mb.place_prov(s_["lhs"]), field):
                    stores = True
        for c in mb.calls:
            if c.path in ("std::option::Option::replace", "std::option::Option::insert", "std::mem::replace") and c.args and \
                    _hits(P, mb, mb.operand_prov(c.args[0]), field):
                stores = True
        r.instance(("J9", mb.nid), True, "stores the hook: %s" % stores)
        if not stores:
            r.violate(("J9", mb.nid, "hook not stored"), "Subject::%s does not store the hook it is given" % meth, body=mb)
    for (body_, field, what) in ((src, "on_subscribe", "subscribe path"), (teardown, "on_unsubscribe", "teardown")):
        calls = [c for c in body_.calls if atom(c) == "fw_call" and c.args and _hits(P, body_, body_.operand_prov(c.args[0]), field)]
        r.instance(("J9", body_.nid, field), True, "hook invocations %s" % [c.bb for c in calls])
        if not calls:
            r.violate(("J9", body_.nid, "%s hook never invoked" % field),
                      "the %s of Subject::observable never invokes the %s hook: ref_count / replay, which connect and disconnect "
                      "through it, never see a subscriber arrive or leave" % (what, field), body=body_)
    for meth in ("set_on_subscribe", "set_on_unsubscribe"):
        mb = P.body("subjects::replay_subject::ReplaySubject::" + meth)
        if mb is None:
            r.error("anchor missing: ReplaySubject::%s" % meth)
            continue
        fwd = [c for c in mb.calls if c.path == SUBJ + "::" + meth and len(c.args) > 1 and
               all(t[0] == "param" and t[1] == 2 for t in mb.operand_prov(c.args[1]))]
        r.instance(("J9", mb.nid), True, "forwards %s" % [c.bb for c in fwd])
        if not fwd or Effects.path_avoiding(mb, mb.returns, [c.bb for c in fwd]) is not None:
            r.violate(("J9", mb.nid, "hook not forwarded"), "ReplaySubject::%s does not hand the hook to its inner Subject" % meth, body=mb)
    for owner in ("subjects::behavior_subject::BehaviorSubject", "subjects::replay_subject::ReplaySubject"):
        osrc = source_closure_of(P, owner + "::observable")
        if osrc is None:
            continue
        tds = [P.bodies[c.arg_closure(1)] for c in osrc.calls if atom(c) == "set_on_unsubscribe" and c.arg_closure(1) in P.bodies]
        r.instance(("J9", osrc.nid, "teardown"), True, "%d teardown closure(s)" % len(tds))
        if not tds:
            r.violate(("J9", owner, "no teardown installed"), "%s::observable installs no teardown on the subscriber" % owner, body=osrc)
        for td in tds:
            un = [c for c in td.calls if atom(c) == "sub_unsubscribe"]
            if not un:
                r.violate(("J9", owner, "teardown does not release the relay"),
                          "the subscriber's teardown does not unsubscribe the relay attached to the live subject: an unsubscribed "
                          "subscriber's relay stays in the subject's observer map", body=td)

    # ---- J10: a broadcast reaches EVERY observer of its snapshot: between the registry and the loop / for_each that calls the
    # observers there are only adapters that keep every element (iter, values, map, cloned, collect, into_iter, rev ..) - no
    # take_while / take / skip / filter / step_by - and a `for` loop over the snapshot leaves only when the iterator is exhausted
    import rules_arity as RAR
    AR = RAR.Arity(P, E)
    KEEP_ALL = set(RAR.SIZE_KEEPING) | set(RAR.ITER_OF) | set(RAR.COLLECT) | {
        "std::collections::HashMap::iter", "std::collections::HashMap::values", "std::collections::HashMap::into_values",
        "std::collections::HashMap::iter_mut", "std::collections::HashMap::values_mut", "std::collections::BTreeMap::iter",
        "std::collections::BTreeMap::values", "std::collections::BTreeMap::into_values", "std::vec::Vec::into_iter",
        "std::sync::RwLock::read", "std::sync::RwLock::write", "std::sync::Mutex::lock", "std::result::Result::unwrap",
        "std::iter::Iterator::rev", "std::vec::Vec::drain", "std::collections::HashMap::drain"}
    for meth, at in (("next", "obs_next"), ("error", "obs_error"), ("complete", "obs_complete")):
        mb = P.body(SUBJ + "::" + meth)
        if mb is None:
            r.error("anchor missing: Subject::%s" % meth)
            continue
        sites = []          # (body holding the observer call, iterator operand in mb or in that body, body of the operand)
        for x in [mb] + P.descendants(mb):
            for c in x.calls:
                if atom(c) != at:
                    continue
                if x.id != mb.id:
                    for (role, k, idx) in E.roles.get(x.id, []):
                        if (role == "INLINE" or role.startswith("STD:")) and k.args and k.path.startswith("std::iter::Iterator::"):
                            sites.append((x, k.args[0], k.body, k.path))
                else:
                    drv = AR.loop_driver_operand(x, c.bb)
                    if drv is not None:
                        sites.append((x, drv, x, "for"))
        r.instance(("J10", mb.nid), bool(sites), "%d broadcasting loop(s)" % len(sites))
        if not sites:
            r.violate(("J10", mb.nid, "no broadcast loop"), "Subject::%s does not call every observer of a snapshot of the registry" % meth, body=mb)
        for (x, opnd, ob, how) in sites:
            paths, root = AR.iter_chain(ob, opnd)
            if how not in ("for", "std::iter::Iterator::for_each"):
                paths = [how] + paths
            bad = [p_ for p_ in paths if p_ not in KEEP_ALL]
            if bad:
                r.violate(("J10", mb.nid, "broadcast skips observers"),
                          "Subject::%s runs its snapshot of the registry through %s before calling the observers: observers behind "
                          "the cut (or filtered out) never receive the event" % (meth, ", ".join(b_.split("::")[-1] for b_ in bad)), body=mb)
            if how == "for":
                # the loop's only way out is the exhausted iterator
                fwd = x.reachable_from([c_.bb for c_ in x.calls if atom(c_) == at][0])
                cyc = {y for y in fwd if [c_.bb for c_ in x.calls if atom(c_) == at][0] in x.reachable_from(y)}
                exits = {(y, z) for y in cyc for z in x.succ.get(y, []) if z not in cyc}
                if len({y for (y, z) in exits}) > 1:
                    r.violate(("J10", mb.nid, "broadcast loop can leave early"),
                              "the loop over the snapshot in Subject::%s has more than one way out: it can stop before the last observer" % meth, body=mb)

    # ---- J6: history before broadcast; subscribe live before replay
    # every state-recording write of a Behavior/Replay subject method precedes its broadcast
    nrec = 0
    for owner in ("subjects::replay_subject::ReplaySubject", "subjects::behavior_subject::BehaviorSubject"):
        for meth in ("next", "error", "complete"):
            mb = P.body(owner + "::" + meth)
            if mb is None:
                r.error("anchor missing: %s::%s" % (owner, meth))
                continue
            acqs, _, _ = mb.guards()
            rec = [bb for bb, a in acqs.items() if a["mode"] in ("W", "M")
                   and any(rk == "param" and rd == 1 for (rk, rd, _) in a["cell"])]
            bc = [c.bb for c in mb.calls if c.path == SUBJ + "::" + meth]
            r.instance(("J6", mb.nid), True, "state writes %s broadcast %s" % (rec, bc))
            if not bc:
                r.violate(("J6", mb.nid, "no broadcast"), "%s::%s does not forward to the inner subject" % (owner, meth), body=mb)
                continue
            nrec += len(rec)
            for b_ in bc:
                after = mb.reachable_from(b_)
                late = [x for x in rec if x in after]
                if late:
                    r.violate(("J6", mb.nid, "broadcast before history"),
                              "the event is broadcast before it is recorded (state write at bb%s after the broadcast): a "
                              "subscriber arriving in between is handed neither the stored state nor the live event"
                              % late, body=mb)
    if nrec < 5:
        r.error("J6: only %d state-recording writes found in Behavior/Replay subject methods (floor 5)" % nrec)
    rsg = None
    rb = P.body("utils::ready_set_go::ready_set_go")
    if rb is not None:
        for b in P.descendants(rb):
            if "SOURCE" in E.role_of(b.id):
                rsg = b
    if rsg is None:
        r.error("anchor missing: ready_set_go source closure")
    else:
        subs = [c.bb for c in rsg.calls if atom(c) == "subscribe"]
        acts = [c for c in rsg.calls if c.trait in ("std::ops::Fn", "std::ops::FnMut", "std::ops::FnOnce")]
        r.instance(("J6", rsg.nid), True, "subscribe %s action %s" % (subs, [c.bb for c in acts]))
        if not subs or not acts:
            r.error("J6: ready_set_go subscribe/action not found")
        for c in acts:
            if Effects.path_avoiding(rsg, [c.bb], subs) is not None:
                r.violate(("J6", rsg.nid, "action before subscribe"),
                          "ready_set_go runs its action before subscribing: everything the action emits is missed", body=rsg, line=c.line)
    # J7: the replay itself runs under the history guard (this is what excludes a concurrent push:
    # ReplaySubject::next appends under the write guard of `items` before it broadcasts)
    ro_ = P.body("subjects::replay_subject::ReplaySubject::observable")
    if ro_ is not None:
        rsrc = source_closure_of(P, "subjects::replay_subject::ReplaySubject::observable")
        act = []
        for c in (rsrc.calls if rsrc is not None else []):
            if atom(c) == "ready_set_go":
                cl = c.arg_closure(0)
                if cl in P.bodies:
                    act.append(P.bodies[cl])
        if not act:
            r.error("J7: replay action closure not found")
        for b in act:
            ia, held, _ = _acq_field(P, b, "items")
            emits = []
            for c in b.calls:
                if c.path == "std::iter::Iterator::for_each":
                    for t in E.inline_targets(c):
                        if any(atom(x) == "obs_next" for x in t.calls):
                            emits.append(c)
                elif atom(c) == "obs_next":
                    emits.append(c)
            r.instance(("J7", b.nid), True, "history guards %s, replay emissions %s" % (list(ia), [c.bb for c in emits]))
            if not emits:
                r.violate(("J7", b.nid, "history not replayed"), "ReplaySubject::observable does not replay the stored items", body=b)
            for c in emits:
                if not (held.get(c.bb, set()) & set(ia)):
                    r.violate(("J7", b.nid, "replay outside the history guard"),
                              "the history is replayed without holding the `items` guard: a push from another thread (append "
                              "under the write guard, then broadcast) lands in the middle of the replay - the late subscriber "
                              "sees it before older items", body=b, line=c.line)
    # ReplaySubject::observable uses ready_set_go with the live subject
    ro = P.body("subjects::replay_subject::ReplaySubject::observable")
    if ro is not None:
        rsrc2 = source_closure_of(P, "subjects::replay_subject::ReplaySubject::observable")
        uses = [c for b in [ro] + ([rsrc2] if rsrc2 is not None else []) for c in b.calls if atom(c) == "ready_set_go"]
        r.instance(("J6", ro.nid), True, "ready_set_go uses %d" % len(uses))
        if not uses:
            r.violate(("J6", ro.nid, "replay without ready_set_go"), "ReplaySubject::observable no longer subscribes-live-then-replays via ready_set_go", body=ro)
    return r


# --------------------------------------------------------------------------- P (C13)

def _forwarding_closures(P, b, c):
    """the three callbacks a subscription is made with: the closure arguments of subscribe(next, error, complete),
    or those of the Observer::new(..) whose result is handed to inner_subscribe(observer)"""
    if not c.path.endswith("::inner_subscribe"):
        return [P.bodies.get(c.arg_closure(i)) if c.arg_closure(i) else None for i in (1, 2, 3)]
    out = None
    for t in (b.operand_prov(c.args[1]) if len(c.args) > 1 else []):
        if t[0] == "ret" and not t[2]:
            oc = b.call_at(t[1])
            if oc is not None and atom(oc) == "observer_new":
                out = [P.bodies.get(oc.arg_closure(i)) if oc.arg_closure(i) else None for i in (0, 1, 2)]
    return out or [None, None, None]


def p_rules(P, E):
    r = RuleResult("P", "connectable observables: publish subscribes only in connect; ref_count/replay connect is a "
                        "test-and-set under one write guard; count==0 reaches unsubscribe of the stored subscription")
    pub = "operators::publish::Publish"
    n = 0
    for b in P.bodies.values():
        if b.nid.startswith(pub + "::"):
            for c in b.calls:
                if atom(c) == "subscribe":
                    n += 1
                    r.instance(("P1", b.nid), True, None)
                    if norm(b.root) != pub + "::connect":
                        r.violate(("P1", b.nid, "source subscribed outside connect"), "publish subscribes its source outside connect()", body=b, line=c.line)
    if n < 1:
        r.error("P1: no subscribe in impl Publish")
    # P8: what connect() hands back IS the subscription of the source (whose is_subscribed / unsubscribe are the relay observer's own);
    # a handle built by hand (Subscription::new over some cell) reports what its author thought of, not what the observer knows
    cb = P.body(pub + "::connect")
    if cb is None:
        r.error("anchor missing: Publish::connect")
    else:
        subs = [c for c in cb.calls if atom(c) == "subscribe"]
        ret_ok = bool(subs) and all(t[0] == "ret" and t[1] in [c.bb for c in subs] and not t[2] for t in cb.local_prov(0))
        made = [c for c in cb.calls if atom(c) == "subscription_new"]
        r.instance(("P8", cb.nid), True, "returns the source subscription: %s; Subscription::new calls: %d" % (ret_ok, len(made)))
        if not ret_ok or made:
            r.violate(("P8", cb.nid, "connect does not return the source subscription itself"),
                      "Publish::connect returns a Subscription that is not the one source.subscribe(..) returned: its is_subscribed() / "
                      "unsubscribe() no longer reflect the relay observer (still `subscribed` after the source's own terminal, or again after a "
                      "reconnect)", body=cb)
    for root in ("operators::ref_count::RefCount::new", "operators::replay::Replay::new"):
        rb = P.body(root)
        if rb is None:
            r.error("anchor missing: %s" % root)
            continue
        up = down = None
        for c in rb.calls:             # private helpers (set_ref_count) are inlined into the constructor
            roles = ROLE_API.get(c.path, {})
            for i, role in roles.items():
                cl = c.arg_closure(i)
                if cl in P.bodies and role == "COUNT_UP":
                    up = P.bodies[cl]
                if cl in P.bodies and role == "COUNT_DOWN":
                    down = P.bodies[cl]
        if up is None or down is None:
            r.error("P: connect / disconnect hook closures not found in %s" % root)
            continue
        # P2: test-and-set under one W guard
        sa, held, sh = _acq_field(P, up, "subscription")
        tests = [c for c in up.calls if c.path in ("std::option::Option::is_some", "std::option::Option::is_none")
                 and _hits(P, up, up.operand_prov(c.args[0]), "subscription")]
        stores = []
        for i in sorted(up.reach):
            for j, s in enumerate(up.blocks[i]["stmts"]):
                if s["k"] == "assign" and len(s["lhs"]) > 1 and _hits(P, up, up.place_prov(s["lhs"]), "subscription"):
                    stores.append((i, j))
        subs = [c for c in up.calls if atom(c) == "subscribe"]
        r.instance(("P2", up.nid), True, "acq %s tests %s stores %s subscribe %s" % ({k: v["mode"] for k, v in sa.items()}, [c.bb for c in tests], stores, [c.bb for c in subs]))
        if len(sa) != 1 or list(sa.values())[0]["mode"] not in ("W", "M"):
            r.violate(("P2", root, "connect not under one write guard"),
                      "the `already connected?` test and the store of the new subscription are not one write-locked step "
                      "(acquisitions: %s): two first subscribers can both connect" % [v["mode"] for v in sa.values()], body=up)
        else:
            a0 = list(sa)[0]
            if not tests:
                r.violate(("P2", root, "no is_some test"), "connect does not test whether a source subscription already exists", body=up)
            for c in tests:
                if a0 not in held.get(c.bb, set()):
                    r.violate(("P2", root, "test outside the guard"), "is_some() tested outside the write guard", body=up, line=c.line)
            if not stores:
                r.violate(("P2", root, "subscription not stored"), "connect never stores the source subscription", body=up)
            for (i, j) in stores:
                if a0 not in (sh[i][j] if i in sh and j < len(sh[i]) else set()):
                    r.violate(("P2", root, "store outside the guard"), "subscription stored outside the write guard", body=up)
            # the subscribe is guarded by the is_some test: not reachable on the already-connected edge
            for c in subs:
                if a0 not in held.get(c.bb, set()):
                    r.violate(("P2", root, "subscribe outside the guard"), "source.subscribe() runs outside the test-and-set guard", body=up, line=c.line)
                if tests and Effects.path_avoiding(up, [c.bb], [t.bb for t in tests]) is not None:
                    r.violate(("P2", root, "subscribe not behind the test"), "source.subscribe() reachable without the is_some() test", body=up, line=c.line)
        # P3: count-down reaches unsubscribe of the stored subscription
        un = [c for c in down.calls if atom(c) == "sub_unsubscribe" and _hits(P, down, down.operand_prov(c.args[0]), "subscription")]
        r.instance(("P3", down.nid), True, "unsubscribe calls %s" % [c.bb for c in un])
        if not un:
            r.violate(("P3", root, "count-down never unsubscribes"), "when the last subscriber leaves the source subscription is not unsubscribed", body=down)
        # P6: the disconnect re-arms the connect: where the stored subscription is unsubscribed it is also taken out of
        # the cell, otherwise connect's `already connected?` test stays true for ever and a subscriber that arrives after the
        # count dropped to zero is attached to a subject nobody feeds
        emptied = []
        for c in down.calls:
            if c.path in ("std::option::Option::take", "std::mem::take", "std::mem::replace") and c.args and \
                    _hits(P, down, down.operand_prov(c.args[0]), "subscription"):
                emptied.append(c.bb)
        for i in sorted(down.reach):
            for s_ in down.blocks[i]["stmts"]:
                if s_["k"] == "assign" and len(s_["lhs"]) > 1 and "*" in s_["lhs"] and _hits(P, down, down.place_prov(s_["lhs"]), "subscription"):
                    emptied.append(i)
        r.instance(("P6", down.nid), True, "unsubscribe %s, cell emptied at %s" % ([c.bb for c in un], emptied))
        for c in un:
            if not emptied or (Effects.path_avoiding(down, [c.bb], emptied) is not None and
                               Effects.path_avoiding(down, down.returns, emptied, start=c.bb) is not None):
                r.violate(("P6", root, "disconnect leaves the stale subscription stored"),
                          "when the last subscriber leaves, the source subscription is unsubscribed but stays in the cell: connect() finds "
                          "`is_some()` for ever, so the next first subscriber never subscribes the source again", body=down, line=c.line)
        # P7: polarity, decided on the hooks' symbolic summaries: connect subscribes the source exactly when the count
        # is 1 and nothing is connected; disconnect unsubscribes exactly when the count is 0 and something is connected
        try:
            from rules_count import Summary, Undecided, ALPHABET
            for hook, role in ((up, "connect"), (down, "disconnect")):
                S = Summary(P, E, hook, item_param=99, item_kind="none", serial_param=2)
                syms = S.symbols()
                cells = [S.cellsym(g) for g, k in S.cellinfo.items() if k and k[0] == "optcell" and S.cellsym(g) in syms]
                if len(cells) != 1:
                    raise Undecided("%s hook: expected the one stored-subscription cell, found %d" % (role, len(cells)))
                for cnt in (0, 1, 2, 3):
                    for present in (False, True):
                        sigma = {cells[0]: present, "in:serial": cnt, "in:live": True}
                        for s_ in S.symbols():
                            sigma.setdefault(s_, 0)
                        outs = S.step(sigma, ALPHABET)
                        if not outs:
                            raise Undecided("%s hook: no feasible path for count %d" % (role, cnt))
                        for (tr, nx), (p_, c_) in outs.items():
                            if any(x[0] == "loop" for x in p_.trace):
                                continue      # a retry loop cut after two rounds: truncated path, judged by its full siblings
                            did_sub = any(x[0] == "subscribe" for x in tr)
                            did_unsub = any(x[0] == "sub_unsubscribe" for x in tr)
                            if role == "connect":
                                want = (cnt == 1 and not present)
                                if did_sub != want or did_unsub:
                                    r.violate(("P7", root, "connect polarity"),
                                              "with %d subscriber(s) and %s, the connect hook %s the source; it must subscribe it exactly when the "
                                              "first subscriber arrives and nothing is connected" % (cnt, "a live connection" if present else "no connection",
                                                                                                     "subscribes" if did_sub else "does not subscribe"), body=hook)
                            else:
                                want = (cnt == 0 and present)
                                if did_unsub != want or did_sub:
                                    r.violate(("P7", root, "disconnect polarity"),
                                              "with %d subscriber(s) left and %s, the disconnect hook %s the source subscription; it must do so exactly "
                                              "when the last subscriber leaves a live connection" % (cnt, "a live connection" if present else "no connection",
                                                                                                   "unsubscribes" if did_unsub else "does not unsubscribe"), body=hook)
                r.instance(("P7", hook.nid), True, "%s hook: 8 (count, connected) states" % role)
        except Undecided as e:
            r.error("P7: not decidable in the abstraction: %s" % e)
        # P4: subscription written only in count-up
        from rules_c17 import _closures_in_view
        for b in [rb] + _closures_in_view(P, rb):
            for i in sorted(b.reach):
                for s in b.blocks[i]["stmts"]:
                    if s["k"] == "assign" and len(s["lhs"]) > 1 and "*" in s["lhs"] and _hits(P, b, b.place_prov(s["lhs"]), "subscription"):
                        r.instance(("P4", b.nid), True, None)
                        if b.id != up.id:
                            r.violate(("P4", root, "subscription written outside connect"), "subscription cell written in %s" % b.nid, body=b)
        # P5: forwarding roles
        for c in subs:
            fcs = _forwarding_closures(P, up, c)
            for i, want in ((1, "subject_next"), (2, "subject_error"), (3, "subject_complete")):
                cb = fcs[i - 1]
                if cb is None:
                    r.error("P5: forwarding callback is not a closure")
                    continue
                ats = [a for a in (SUBJECT_EMIT.get(x.path) or _replay_emit(x.path) for x in cb.calls) if a]
                r.instance(("P5", cb.nid), True, "forwards %s" % ats)
                if ats != [want]:
                    r.violate(("P5", root, "forwarding callback %d does not forward %s" % (i, want)),
                              "the connect callbacks must forward next->next, error->error, complete->complete (found %s)" % ats, body=cb)
    # publish forwarding
    cn = P.body(pub + "::connect")
    if cn is not None:
        for c in cn.calls:
            if atom(c) == "subscribe":
                fcs = _forwarding_closures(P, cn, c)
                for i, want in ((1, "subject_next"), (2, "subject_error"), (3, "subject_complete")):
                    cb = fcs[i - 1]
                    if cb is None:
                        continue
                    ats = [a for a in (SUBJECT_EMIT.get(x.path) for x in cb.calls) if a]
                    r.instance(("P5", cb.nid), True, "forwards %s" % ats)
                    if ats != [want]:
                        r.violate(("P5", pub + "::connect", "forwarding callback %d does not forward %s" % (i, want)), "publish forwards %s" % ats, body=cb)
    else:
        r.error("anchor missing: Publish::connect")
    return r


def _replay_emit(path):
    for s in SUBJECTS:
        for m in ("next", "error", "complete"):
            if path == s + "::" + m:
                return "subject_" + m
    return None


# --------------------------------------------------------------------------- D (C11)

def d_rules(P, E, H):
    r = RuleResult("D", "decide-under-one-guard: in take / amb / zip / new_observer the deciding value is computed under "
                        "the single write guard that updates the cell (D1), and no such guard is live across an emission (D2)")
    designated = []
    tk = None
    for t in H.triples:
        if t["root"] == "operators::take::Take":
            tk = t["handlers"]["N"]
    if tk is None:
        r.error("anchor missing: take next-handler")
    else:
        designated.append((tk, None, "take counter"))
    amb = P.body("operators::amb::Amb::execute")
    if amb is None:
        r.error("anchor missing: Amb::execute")
    else:
        # the winner decision runs (inlined) in each of amb's handlers: exactly one exclusive access each
        iw = []
        for t in H.triples:
            if t["root"] == "operators::amb::Amb":
                iw += [hb for hb in t["handlers"].values() if hb is not None and hb.accesses()]
        if not iw:
            r.error("anchor missing: amb handlers deciding the winner")
        for b in iw:
            designated.append((b, None, "amb winner"))
    zp = P.body("operators::zip::Zip::execute")
    if zp is None:
        r.error("anchor missing: Zip::execute")
    else:
        def _pops(ob):
            if any(c.path == "std::collections::VecDeque::pop_front" for c in ob.calls):
                return True
            return any(_pops(P.orig.get(ch.id, ch)) for ch in P.children(ob))
        cands = list(P.descendants(zp))
        for b in P.bodies.values():          # a module-level private helper (fn pop_row(..)) counts as well
            if b.kind == "fn" and b.nid.startswith("operators::zip::") and b not in cands:
                cands.append(b)
                cands += [d for d in P.descendants(b) if d not in cands]
        gets = [b for b in cands
                if P.orig.get(b.id, b).guards()[0] and _pops(P.orig.get(b.id, b))
                and not any(P.orig.get(ch.id, ch).guards()[0] and _pops(P.orig.get(ch.id, ch)) for ch in P.children(b))]
        gets = [b for b in gets if not any(atom(c) in ("new_observer",) for c in b.calls)]
        if not gets:
            r.error("anchor missing: zip get closure")
        for b in gets:
            designated.append((b, None, "zip test-and-pop"))
    no = P.body(SCTL + "::new_observer")
    if no is None:
        r.error("anchor missing: new_observer")
    else:
        designated.append((no, "serial", "new_observer serial"))
    # C03(d) / C16 structural clause: sample and debounce take-and-clear their latest-value slot
    for root, what in (("operators::sample::Sample::execute", "sample latest value"),
                       ("operators::debounce::Debounce::execute", "debounce latest value")):
        rb = P.body(root)
        if rb is None:
            r.error("anchor missing: %s" % root)
            continue
        # the latest-value cell = the lock cell whose content reaches sink_next in an emitting closure
        takers = []
        troot = H.type_root(rb)
        scope_b = list(P.descendants(rb)) + [x for x in P.bodies.values() if x.kind == "closure" and H.type_root(x) == troot]
        seen_b = set()
        for b in scope_b:
            if b.id in P.absorbed or b.id in seen_b:
                continue
            seen_b.add(b.id)
            acqs, _, _ = b.guards()
            if not acqs:
                continue
            for c in b.calls:
                if atom(c) != "sink_next" or len(c.args) < 2:
                    continue
                src_cells = set()
                for t in b.operand_prov(c.args[1]):
                    for bb_, a in acqs.items():
                        if any(t[:2] == ct[:2] and t[2][:len(ct[2])] == ct[2] for ct in a["cell"]):
                            src_cells.add(frozenset(a["cell"]))
                if src_cells:
                    takers.append((b, sorted(src_cells, key=str)[0]))
        if not takers:
            r.error("anchor missing: closure of %s that emits the stored latest value" % root)
        for (b, cell) in takers:
            cname = "+".join(sorted(b.term_name(t) for t in cell))
            designated.append((b, cell, what))
            emptied = False
            for i in sorted(b.reach):
                for s_ in b.blocks[i]["stmts"]:
                    if s_["k"] == "assign" and len(s_["lhs"]) > 1 and "*" in s_["lhs"] and (b.place_prov(s_["lhs"]) & set(cell)):
                        for t in (b.operand_prov(s_["rv"]["op"]) if s_["rv"]["k"] == "use" else []):
                            if t[0] == "agg" and b.blocks[t[1][0]]["stmts"][t[1][1]]["rv"].get("variant") == "None":
                                emptied = True
            for c in b.calls:
                if c.path in ("std::option::Option::take", "std::mem::take") and (b.operand_prov(c.args[0]) & set(cell)):
                    emptied = True
            r.instance(("D1", b.nid, what + " emptied"), True, "cell %s emptied=%s" % (cname, emptied))
            if not emptied:
                r.violate(("D1", b.nid, what + " not cleared"), "the stored item is emitted but never cleared: it is delivered again on the next tick", body=b)
    for (b, cellname, what) in designated:
        acqs, held, _ = b.guards()
        acc = b.accesses()
        if isinstance(cellname, frozenset):
            sel = [a for a in acc if a["cell"] & cellname]
        elif cellname is None:
            sel = acc
        else:
            sel = [a for a in acc if any(cellname in b.term_name(t) for t in a["cell"])]
        r.instance(("D1", b.nid, what), True, "accesses %s" % [(a["bb"], a["kind"]) for a in sel])
        if len(sel) != 1:
            r.violate(("D1", b.nid, "%s: %d acquisitions" % (what, len(sel))),
                      "the %s is not decided in exactly one atomic step (%d accesses to the cell in this body): a value read "
                      "in one step is acted on in another, two threads can both decide `mine`" % (what, len(sel)), body=b)
            continue
        a = sel[0]
        if a["kind"] not in ("W", "M", "RMW"):
            r.violate(("D1", b.nid, "%s decided under a read guard" % what),
                      "the %s is tested/updated with a %s access: concurrent inputs are not excluded" % (what, a["kind"]), body=b)
        a0 = a["bb"]
        for c in b.calls:
            if a0 in held.get(c.bb, set()) and atom(c) in ("sink_next", "sink_error", "sink_complete", "sink_complete_force", "abort", "finalize"):
                r.violate(("D2", b.nid, "%s guard across emission" % what), "emission while the deciding guard is held", body=b, line=c.line)
    return r


def _acq_field_local(P, b, name):
    acqs, _, _ = b.guards()
    return {bb: a for bb, a in acqs.items() if any(name in b.term_name(t) for t in a["cell"])}


# --------------------------------------------------------------------------- A19a (C19)

def a19a(P, E):
    r = RuleResult("A19a", "each terminal kind is taken atomically: Observer::error/complete invoke their slot only through "
                           "FunctionWrapper::call_and_clear_if_available")
    for name, slot in (("error", "fn_error"), ("complete", "fn_complete")):
        b = P.body(OBSERVER + "::" + name)
        if b is None:
            r.error("anchor missing: Observer::%s" % name)
            continue
        invs = [c for c in b.calls if atom(c) == "fw_call" and
                any(rk == "param" and rd == 1 and path[:1] == (slot,) for (rk, rd, path) in b.operand_prov(c.args[0]))]
        r.instance((b.nid, slot), True, "invocations %s" % [c.name for c in invs])
        if not invs:
            r.violate((b.nid, "terminal never delivered"), "Observer::%s does not invoke %s" % (name, slot), body=b)
        for c in invs:
            if c.name != "call_and_clear_if_available":
                r.violate((b.nid, "terminal invoked with " + (c.name or "?")),
                          "Observer::%s invokes its slot with %s instead of the atomic take: two racing callers can both "
                          "deliver the same terminal" % (name, c.name), body=b, line=c.line)
        # no other slot invoked from a terminal
        for c in b.calls:
            if atom(c) == "fw_call" and c not in invs:
                r.violate((b.nid, "foreign slot invoked"), "Observer::%s invokes another slot" % name, body=b, line=c.line)
    return r


# --------------------------------------------------------------------------- A19b (C19)

def a19b(P, E):
    """Cross-kind exclusion: error() and complete() deliver only after winning ONE common atomic
    test-and-set, and the winner empties the next slot before it invokes the terminal callback."""
    from absint import SlotInterp, Unsupported
    from rules_o import _branches_on_calls
    r = RuleResult("A19b", "Observer::error and Observer::complete are arbitrated by one atomic test-and-set on a common "
                           "cell (only the winner delivers) and clear the next slot before invoking the terminal callback")
    adt = P.adts.get(OBSERVER)
    if not adt:
        r.error("anchor missing: struct Observer")
        return r
    bool_fields = [f["name"] for v in adt["variants"] for f in v["fields"]
                   if any(l["end"] == "lock" and l["ty"] in ("std::sync::RwLock<bool>", "std::sync::Mutex<bool>",
                                                               "std::sync::atomic::Atomic<bool>", "std::sync::atomic::AtomicBool")
                          for l in f["leaves"])]
    arb_cells = {}
    # the arbiter is looked for as a *call*, every other private helper (a `deliver_terminal(..)` extracted by a
    # refactoring) must be seen through: a view in which only the bool-returning Observer methods stay calls
    P0 = P
    if not hasattr(P0, "_a19b_view"):
        keep = {m.nid for m in P0.methods_of(OBSERVER) if m.locals[0]["ty"].get("s") == "bool"}
        P0._a19b_view = Program(P0.facts, no_inline=api_paths() | keep)
    P = P0._a19b_view
    # only the two arbitrated methods may invoke a terminal slot: any other method of Observer that calls fn_error / fn_complete
    # (a `complete_forced()` for callers that "know" the subscriber is alive) delivers a terminal outside the test-and-set
    for m in [x for x in P0.orig.values() if x.kind == "assoc" and x.impl_self and norm(ty_adt(x.impl_self) or "") == OBSERVER]:
        if m.name in ("error", "complete") or m.impl_trait:
            continue
        for c in m.calls:
            if atom(c) == "fw_call" and any(rk == "param" and rd == 1 and path[:1] in (("fn_error",), ("fn_complete",))
                                            for (rk, rd, path) in m.operand_prov(c.args[0])):
                r.violate((m.nid, "terminal slot invoked outside error()/complete()"),
                          "Observer::%s invokes a terminal callback slot itself: that delivery is not arbitrated by the common test-and-set "
                          "(a racing error()/complete() on another thread delivers a second terminal)" % m.name, body=m, line=c.line)
    for name, slot in (("error", "fn_error"), ("complete", "fn_complete")):
        b = P.body(OBSERVER + "::" + name)
        if b is None:
            r.error("anchor missing: Observer::%s" % name)
            continue
        dom = b.dominators()
        invs = [c for c in b.calls if atom(c) == "fw_call" and
                any(rk == "param" and rd == 1 and path[:1] == (slot,) for (rk, rd, path) in b.operand_prov(c.args[0]))]
        if not invs:
            r.error("A19b: terminal invocation not found in Observer::%s" % name)
            continue
        # candidate arbiters: bool-returning Observer methods called on self whose true edge dominates the invocation
        cands = []
        for c in b.calls:
            if not c.local or not c.path.startswith(OBSERVER + "::") or not c.args:
                continue
            if not all(rk == "param" and rd == 1 and not path for (rk, rd, path) in b.operand_prov(c.args[0])):
                continue
            cb = P0.body(c.path)       # the candidate itself is judged with everything it calls spliced in
            if cb is None or cb.locals[0]["ty"]["s"] != "bool":
                continue
            for g in _branches_on_calls(b, [c]):
                if all(g["true"] in dom[i.bb] and b.pred[g["true"]] == [g["switch"]] and g["true"] != g["false"] for i in invs):
                    cands.append((c, cb))
        found = None
        for (c, cb) in cands:
            for f in bool_fields:
                try:
                    interp = SlotInterp(P0, ((f,),), bool_cells=(0,))
                    o0 = interp.run(cb, (False,), {1: ()})
                    o1 = interp.run(cb, (True,), {1: ()})
                except Unsupported:
                    continue
                # (conditional) test-and-set: from a clear flag every `true` result has set the flag and every
                # `false` result has left it clear; from a set flag the result is always `false`
                tas = (o0 and o1 and any(o.ret == 1 for o in o0)
                       and all((o.ret == 1 and o.state == (True,)) or (o.ret == 0 and o.state == (False,)) for o in o0)
                       and all(o.ret == 0 and o.state == (True,) for o in o1))
                # one atomic step: exactly one exclusive access (write/mutex guard, or atomic read-modify-write) to the flag
                acc = [a for a in cb.accesses() if any(rk == "param" and rd == 1 and path[:1] == (f,) for (rk, rd, path) in a["cell"])]
                if tas and len(acc) == 1 and acc[0]["kind"] in ("W", "M", "RMW"):
                    found = (c.path, f)
        r.instance((b.nid, "arbiter"), True, "candidates %s -> test-and-set %s" % ([c.path for c, _ in cands], found))
        if not found:
            r.violate((b.nid, "terminal not arbitrated"),
                      "Observer::%s delivers its terminal without first winning an atomic test-and-set (one write guard: read "
                      "the flag, set it, report whether it was clear): a thread that passed the is_subscribed() gate can still "
                      "deliver %s after another thread has delivered the other terminal" % (name, name), body=b, line=invs[0].line)
            continue
        arb_cells[name] = found
        # the next slot is cleared before the terminal callback is invoked
        ncl = [c.bb for c in b.calls if atom(c) == "fw_clear" and
               any(rk == "param" and rd == 1 and path[:1] == ("fn_next",) for (rk, rd, path) in b.operand_prov(c.args[0]))]
        r.instance((b.nid, "next cleared first"), True, "clear blocks %s" % ncl)
        for i in invs:
            if not ncl or Effects.path_avoiding(b, [i.bb], ncl) is not None:
                r.violate((b.nid, "next slot not cleared before the terminal callback"),
                          "the terminal callback can run (and return) while the next slot is still set: a next that starts "
                          "after the terminal callback returned is still delivered", body=b, line=i.line)
    if len(arb_cells) == 2 and arb_cells["error"] != arb_cells["complete"]:
        r.violate((OBSERVER, "terminals arbitrated on different cells"),
                  "error() and complete() each use their own test-and-set (%s vs %s): they do not exclude each other"
                  % (arb_cells["error"], arb_cells["complete"]))
    return r


# --------------------------------------------------------------------------- J8 / J9 (C12 two-step windows)

def j_windows(P, E):
    """A producer's {record, broadcast} and a late subscriber's {hand-over of the recorded state,
    attach to the live subject} must each be one critical section of the history lock; otherwise a
    subscriber arriving in the window gets an item twice (ReplaySubject) or misses it (BehaviorSubject).
    Necessary structural condition checked: the guard of the state cell is live at the broadcast call
    (producer side) and at the attach call (subscriber side)."""
    r = RuleResult("J8", "record+broadcast and hand-over+attach of Behavior/Replay subjects are single critical sections")
    for owner, cell in (("subjects::replay_subject::ReplaySubject", "items"),
                        ("subjects::behavior_subject::BehaviorSubject", None)):
        # producer side
        mb = P.body(owner + "::next")
        if mb is None:
            r.error("anchor missing: %s::next" % owner)
        else:
            acqs, held, _ = mb.guards()
            rec = {bb for bb, a in acqs.items() if a["mode"] in ("W", "M") and any(rk == "param" and rd == 1 for (rk, rd, _) in a["cell"])}
            bc = [c for c in mb.calls if c.path == SUBJ + "::next"]
            r.instance((owner + "::next", "record+broadcast"), True, "state writes %s, broadcast %s" % (sorted(rec), [c.bb for c in bc]))
            for c in bc:
                if not (held.get(c.bb, set()) & rec):
                    r.violate((owner + "::next", "record and broadcast are two steps"),
                              "the item is recorded under the state lock and broadcast after releasing it: a subscriber that "
                              "attaches and is handed the recorded state in between receives the item twice (history) or, for a "
                              "value subject, can miss a push that lands between its hand-over and its attach", body=mb, line=c.line)
        # subscriber side
        src = source_closure_of(P, owner + "::observable")
        if src is None:
            r.error("anchor missing: %s::observable source closure" % owner)
            continue
        bodies = [src] + [P.bodies[cl] for c in src.calls if atom(c) == "ready_set_go" for cl in [c.arg_closure(0)] if cl in P.bodies]
        attach = [(b, c) for b in [src] for c in b.calls if atom(c) in ("subscribe", "ready_set_go")]
        state_acq = []
        for b in bodies:
            acqs, held, _ = b.guards()
            for bb, a in acqs.items():
                state_acq.append((b, bb))
        r.instance((owner + "::observable", "hand-over+attach"), True, "state acquisitions %d, attach calls %s" % (len(state_acq), [c.bb for _, c in attach]))
        ok = False
        for (b, c) in attach:
            acqs, held, _ = b.guards()
            if held.get(c.bb, set()):
                ok = True
        if attach and not ok:
            r.violate((owner + "::observable", "hand-over and attach are two steps"),
                      "the late subscriber is handed the recorded state and attached to the live subject in two separate steps "
                      "(no state guard is live at the attach): a push landing in between is delivered twice or lost", body=src)
    return r


# --------------------------------------------------------------------------- LATE-HANDLE (C06 / C10)

def late_handle(P, E):
    """Behavior/ReplaySubject hand a new subscriber recorded state synchronously.  If the subscriber
    ends on it (take(1), first()) its teardown runs at once - possibly before the relay to the live
    subject exists or before its Subscription is stored.  Conditions:
      LH1 an attach that follows an emission to the subscriber is dominated by the subscribed edge
          of a re-check `s.is_subscribed()`;
      LH2 if the attach expression itself replays to the subscriber (ready_set_go action), the store
          of the returned Subscription is followed on every path by a re-check whose not-subscribed
          edge unsubscribes that Subscription."""
    from rules_o import _branches_on_calls
    r = RuleResult("LATE-HANDLE", "a subscriber that finishes during the hand-over is not left attached to the live subject")
    for owner in ("subjects::behavior_subject::BehaviorSubject", "subjects::replay_subject::ReplaySubject"):
        src = source_closure_of(P, owner + "::observable")
        if src is None:
            r.error("anchor missing: %s::observable source closure" % owner)
            continue
        dom = src.dominators()

        def on_s(c):
            return c.args and all(rk == "param" and rd == 2 for (rk, rd, _) in src.operand_prov(c.args[0]))

        emits = [c for c in src.calls if atom(c) in ("obs_next",) and on_s(c)]
        attaches = [c for c in src.calls if atom(c) in ("subscribe", "ready_set_go")]
        gates = _branches_on_calls(src, [c for c in src.calls if atom(c) == "is_subscribed" and on_s(c)])
        if not attaches:
            r.error("LATE-HANDLE: attach call not found in %s" % owner)
            continue
        # LH1
        for e in emits:
            for a in attaches:
                if a.bb not in src.reachable_from(e.bb):
                    continue
                r.instance((owner, "LH1"), True, "emission bb%d before attach bb%d" % (e.bb, a.bb))
                # every path from the emission to the attach runs over the subscribed edge of a re-check
                ok = any(src.pred[g["true"]] == [g["switch"]] and g["true"] != g["false"]
                         and Effects.path_avoiding(src, [a.bb], [g["true"]], start=e.bb) is None for g in gates)
                if not ok:
                    r.violate((owner, "attach after hand-over without liveness check"),
                              "the subscriber is handed the recorded value and then attached to the live subject without "
                              "re-checking that it is still subscribed: a subscriber that ended on that value (take(1)) stays in "
                              "the subject's observer map forever", body=src, line=a.line)
        # LH2
        replaying = []
        for a in attaches:
            if atom(a) == "ready_set_go":
                cl = a.arg_closure(0)
                ab = P.bodies.get(cl) if cl else None
                if ab is not None and any(atom(x) in ("obs_next", "obs_error", "obs_complete") for b2 in [ab] + P.descendants(ab) for x in b2.calls):
                    replaying.append(a)
        if replaying:
            stores = []
            for i in sorted(src.reach):
                for j, st in enumerate(src.blocks[i]["stmts"]):
                    if st["k"] == "assign" and len(st["lhs"]) > 1 and "*" in st["lhs"] and st["rv"]["k"] == "use":
                        for t in src.operand_prov(st["rv"]["op"]):
                            if t[0] == "agg":
                                stores.append(i)
            for c in src.calls:       # the same store spelled slot.replace(handle) / slot.insert(handle)
                if c.path in ("std::option::Option::replace", "std::option::Option::insert", "std::option::Option::get_or_insert") and len(c.args) > 1 \
                        and "subscription::Subscription" in ((c.args[1].get("t") or {}).get("s") or ""):
                    stores.append(c.bb)
            unsubs = [c.bb for c in src.calls if atom(c) == "sub_unsubscribe"]
            r.instance((owner, "LH2"), True, "stores %s, gates %s, release calls %s" % (sorted(set(stores)), [g["switch"] for g in gates], unsubs))
            ok = False
            for g in gates:
                if g["false"] is None:
                    continue
                # the gate comes after the store on every path, and its not-subscribed edge reaches the release
                after_store = any(sb in dom[g["switch"]] for sb in stores)
                releases = any(u in src.reachable_from([g["false"]]) or u == g["false"] for u in unsubs)
                covers = Effects.path_avoiding(src, src.returns, [g["switch"]], start=max(stores)) is None if stores else False
                if after_store and releases and covers:
                    ok = True
            if not ok:
                r.violate((owner, "replayed subscriber not released"),
                          "the relay's Subscription is stored only after the replay; a subscriber that ended during the replay has "
                          "already run its teardown (which found nothing), and nothing re-checks it afterwards: the relay stays "
                          "attached to the live subject", body=src)
        elif not emits:
            r.instance((owner, "no synchronous hand-over"), False)
    # LH3: connectables.  The disconnect hook unsubscribes the source through the cell that the connect hook
    # fills with the result of source.subscribe(..) - i.e. only after that call has returned.  A source that
    # emits synchronously inside subscribe (a cold iterator) cannot be stopped when its last subscriber leaves
    # during connect: the hook finds no handle (replay) or blocks on the connect's guard (ref_count, see L1).
    for root in ("operators::ref_count::RefCount::new", "operators::replay::Replay::new"):
        rb = P.body(root)
        if rb is None:
            r.error("anchor missing: %s" % root)
            continue
        up = down = None
        for c in rb.calls:
            for i, role in ROLE_API.get(c.path, {}).items():
                cl = c.arg_closure(i)
                if cl in P.bodies and role == "COUNT_UP":
                    up = P.bodies[cl]
                if cl in P.bodies and role == "COUNT_DOWN":
                    down = P.bodies[cl]
        if up is None or down is None:
            r.error("LATE-HANDLE: connect / disconnect hooks not found in %s" % root)
            continue
        subs = [c for c in up.calls if atom(c) == "subscribe"]
        reads = [c for c in down.calls if atom(c) == "sub_unsubscribe" and _hits(P, down, down.operand_prov(c.args[0]), "subscription")]
        stored_after = False
        for i in sorted(up.reach):
            for st in up.blocks[i]["stmts"]:
                if st["k"] == "assign" and len(st["lhs"]) > 1 and "*" in st["lhs"] and _hits(P, up, up.place_prov(st["lhs"]), "subscription"):
                    stored_after = True
        r.instance((root.rsplit("::", 1)[0], "LH3"), True, "subscribe calls %s, disconnect reads %s" % ([c.bb for c in subs], [c.bb for c in reads]))
        if subs and reads and stored_after:
            r.violate((root.rsplit("::", 1)[0], "disconnect during connect finds no handle"),
                      "the source's Subscription is stored (for the disconnect hook) only after source.subscribe(..) has returned: "
                      "a source that emits synchronously inside subscribe cannot be stopped when the last subscriber leaves "
                      "during connect", body=up, line=subs[0].line)
    return r
