#!/usr/bin/env python3
"""/verif/check <ID> [--tier quick|thorough]

Builds the facts from /repo's current working tree (fresh cargo check through the rxlint
driver), runs the static rules registered for the property, subtracts known findings by exact
key, writes /verif/evidence/<ID>.json and a replay report for every unlisted violation.

exit 0: property held on everything examined (known findings are printed as KNOWN-FINDING)
exit 1: VIOLATION property=<ID> replay=<path>
exit 2: the check could not decide (facts missing, anchor missing, floor not met): fail closed
"""
import json, os, sys, time, traceback

HERE = os.path.dirname(os.path.abspath(__file__))
VERIF = os.path.dirname(HERE)
sys.path.insert(0, HERE)

import facts as FACTS
from model import Program
from effects import Effects, load_program
from rules_h import Handlers
import registry

REPO = os.environ.get("RXLINT_REPO", "/repo")
ASSUMPTIONS = [
    "A-item: Clone/PartialEq/PartialOrd/Add/Hash/Debug of the element type and Iterator::next do not call back into the library",
    "A-sched: user implementations of IScheduler are not analysed",
    "A-std: std::sync primitives and collections behave as documented (RwLock is not re-entrant)",
    "A-poison: panics inside callbacks are out of scope (.unwrap() on lock results)",
    "A-build: default features, non-test code as built by `cargo check --lib`; feature `web` does not build offline and is out of scope",
    "A-internals: `internals::*` (StreamController, FunctionWrapper) is used only by the crate's own operators",
]
TRUSTED = ["rustc nightly type checking and MIR construction (mir_promoted)",
           "rxlint facts serialiser (/verif/rxlint)",
           "provenance analysis (flow-insensitive union over definitions; unknown fails closed)",
           "python rule code (/verif/rules), unit-tested on synthetic CFGs and positive controls"]


def load_known():
    p = os.path.join(VERIF, "known_findings.json")
    if not os.path.exists(p):
        return []
    return json.load(open(p))


def thorough_extras(pid, rules, results, errors):
    """(1) every single-edit variant registered for this property (variants/variants.py) and every
    archived seeded change whose meta names this property is applied to a scratch copy of the
    current tree; the property's rules must report it (a variant that no longer applies/compiles
    is skipped and counted).  (2) the facts are rebuilt with debug assertions off and the rule
    verdicts must be identical (no cfg(debug_assertions) code hides a site)."""
    import glob, subprocess
    sys.path.insert(0, os.path.join(VERIF, "tools"))
    sys.path.insert(0, os.path.join(VERIF, "variants"))
    import selftest_variants as SV, variants as VV, try_patch as TP
    from concurrent.futures import ThreadPoolExecutor
    vs = [v for v in VV.V if v["prop"] == pid]
    with ThreadPoolExecutor(max_workers=8) as ex:
        vres = list(ex.map(SV.run_variant, vs))
    out = {"variants": [], "seeded": [], "second_build": None}
    for v, (st, why) in zip(vs, vres):
        out["variants"].append(dict(variant=v["name"], rule=v["rule"], status=st, detail=why[:200]))
        if st == "MISSED":
            errors.append("self-test: variant %s (rule %s) was NOT reported: %s" % (v["name"], v["rule"], why[:200]))
    for d in sorted(glob.glob(os.path.join(VERIF, "seeded", "*"))):
        try:
            meta = json.load(open(os.path.join(d, "meta.json")))
        except Exception:
            continue
        if meta.get("property") != pid:
            continue
        p = subprocess.run(["python3", os.path.join(VERIF, "tools", "try_patch.py"), os.path.join(d, "patch.diff")],
                           stdout=subprocess.PIPE, stderr=subprocess.STDOUT, text=True).stdout
        fl = [l for l in p.splitlines() if l.startswith("FLAGGED:")]
        flagged = fl[0].split()[1:] if fl else []
        if "PATCH DOES NOT APPLY" in p or "DOES NOT BUILD" in p:
            st = "SKIPPED"
        elif pid in flagged:
            st = "DETECTED"
        elif meta.get("expected_miss"):
            st = "EXPECTED-MISS"
        else:
            st = "MISSED"
            errors.append("self-test: seeded change %s is no longer reported under %s" % (os.path.basename(d), pid))
        out["seeded"].append(dict(seed=os.path.basename(d), status=st))
    # (1b) false-alarm side: behaviour-preserving edits (variants.B) and the sub-agents' refactorings must
    # leave THIS property's rules silent
    import shutil, tempfile
    out["benign"] = []

    def _silent_on(name, prepare):
        d = tempfile.mkdtemp(prefix="rxben-", dir="/var/tmp")
        try:
            TP.copy_repo(d)
            if not prepare(d):
                return (name, "SKIPPED", "")
            try:
                res = TP.analyse(d)
            except FACTS.FactsError:
                return (name, "SKIPPED", "does not compile")
            viol, errs2 = res.get(pid, ([], []))
            bad = ["[%s] %s" % (x.rule, x.keystr()) for x in viol] + errs2
            return (name, "ALARM" if bad else "SILENT", "; ".join(bad[:2]))
        finally:
            shutil.rmtree(d, ignore_errors=True)

    def _prep_edit(v):
        def f(d):
            for (fn_, old, new) in v["edits"]:
                pth = os.path.join(d, fn_)
                if not os.path.exists(pth):
                    return False
                src = open(pth).read()
                if old not in src:
                    return False
                open(pth, "w").write(src.replace(old, new))
            for fn_, content in v["adds"].items():
                open(os.path.join(d, fn_), "w").write(content)
            return True
        return f

    def _prep_patch(pp):
        def f(d):
            subprocess.check_call(["git", "init", "-q"], cwd=d)
            return subprocess.run(["git", "apply", "--whitespace=nowarn", pp], cwd=d, stdout=subprocess.DEVNULL,
                                  stderr=subprocess.DEVNULL).returncode == 0
        return f

    jobs = [(v["name"], _prep_edit(v)) for v in VV.B] + \
           [(os.path.basename(pp), _prep_patch(pp)) for pp in sorted(glob.glob(os.path.join(VERIF, "refactors", "*.diff")))]
    with ThreadPoolExecutor(max_workers=8) as ex:
        bres = list(ex.map(lambda j: _silent_on(*j), jobs))
    for (name, st, why) in bres:
        out["benign"].append(dict(edit=name, status=st, detail=why[:200]))
        if st == "ALARM":
            errors.append("self-test: behaviour-preserving edit %s raises an alarm under %s: %s" % (name, pid, why[:200]))
    try:
        fx2 = FACTS.build_facts(REPO, extra_rustflags="-C debug-assertions=off")
        P2 = load_program(fx2); E2 = Effects(P2); H2 = Handlers(P2, E2)
        ctx2 = registry.Ctx(P2, E2, H2)
        v1 = sorted((rid,) + v.key for (rid, r, _) in results for v in r.violations)
        v2 = []
        for (rid, fn, floor) in rules:
            r2 = fn(ctx2)
            v2 += [(rid,) + v.key for v in r2.violations]
        same = v1 == sorted(v2)
        out["second_build"] = dict(flags="-C debug-assertions=off", bodies=len(P2.bodies), same_verdicts=same)
        if not same:
            errors.append("second build configuration (-C debug-assertions=off) gives different verdicts")
    except FACTS.FactsError as e:
        errors.append("second build configuration failed: %s" % e)
    nd = sum(1 for x in out["variants"] if x["status"] == "DETECTED")
    print("thorough self-test: %d/%d variants detected (%d skipped), seeded %s, benign/refactor edits silent %d/%d, second build %s"
          % (nd, len(vs), sum(1 for x in out["variants"] if x["status"] == "SKIPPED"),
             [(x["seed"], x["status"]) for x in out["seeded"]],
             sum(1 for x in out["benign"] if x["status"] == "SILENT"), len(out["benign"]), out["second_build"]))
    return out


def main(argv):
    t0 = time.time()
    if len(argv) < 2:
        print(__doc__)
        return 2
    pid = argv[1]
    tier = os.environ.get("VERIF_TIER", "quick")
    facts_path = None
    i = 2
    while i < len(argv):
        if argv[i] == "--tier":
            tier = argv[i + 1]
            i += 2
        elif argv[i] == "--facts":
            facts_path = argv[i + 1]
            i += 2
        elif argv[i] == "--replay":
            print(open(argv[i + 1]).read())
            return 0
        else:
            i += 1
    seed = int(os.environ.get("VERIF_SEED", "0") or 0)
    rules = registry.rules_for(pid)
    if not rules:
        print("no rules registered for %s" % pid)
        return 2
    try:
        if facts_path:
            fx = json.load(open(facts_path))
        else:
            fx = FACTS.build_facts(REPO)
    except FACTS.FactsError as e:
        print("FAIL-CLOSED property=%s cannot build facts: %s" % (pid, e))
        return 2
    P = load_program(fx)
    E = Effects(P)
    H = Handlers(P, E)
    ctx = registry.Ctx(P, E, H)
    results, errors = [], []
    for (rid, fn, floor) in rules:
        try:
            r = fn(ctx)
        except Exception as e:
            errors.append("%s: rule crashed: %s" % (rid, "".join(traceback.format_exception_only(type(e), e)).strip()))
            traceback.print_exc()
            continue
        results.append((rid, r, floor))
        errors += r.errors
        if r.examined < floor:
            errors.append("%s: examined %d instances, floor is %d (ANCHOR-MISSING / vacuous pass refused)"
                          % (rid, r.examined, floor))

    # ---- thorough tier: checker self-test for this property + second build configuration
    selftest = None
    if tier == "thorough" and not facts_path:
        selftest = thorough_extras(pid, rules, results, errors)

    known = [k for k in load_known() if k.get("property") == pid]
    known_keys = {tuple(k["key"]): k for k in known if k.get("status") == "known"}
    violations, known_hit = [], []
    for (rid, r, _) in results:
        for v in r.violations:
            k = (v.rule,) + v.key
            if k in known_keys:
                known_hit.append((k, known_keys[k], v))
            else:
                violations.append(v)

    # evidence
    examined = sum(r.examined for (_, r, _) in results)
    nontrivial = sum(r.distinct_nontrivial for (_, r, _) in results)
    samples = []
    for (_, r, _) in results:
        samples += r.samples(2)
    obligations = len(results)
    discharged = sum(1 for (_, r, _) in results if not r.violations and not r.errors)
    ev = {
        "property_id": pid,
        "tier": tier if tier in ("quick", "thorough") else "quick",
        "seed": seed,
        "level": "other",
        "coverage": {
            "explanation": registry.EXPLANATION.get(pid, ""),
            "evaluations": examined,
            "distinct_nontrivial": nontrivial,
            "rule": "an evaluation is one rule instance (a handler, a call site, an acquisition, a "
                    "method/state pair) examined on all CFG paths of the MIR of /repo's current tree; "
                    "non-trivial = the instance has at least one event relevant to the rule; distinct = "
                    "distinct line-free instance keys",
            "samples": samples[:12] or [{"note": "no instance"}],
            "obligations": obligations,
            "discharged": discharged,
            "checker_cmd": "/verif/check %s --tier %s" % (pid, tier),
            "trusted_base": TRUSTED,
            "rules": [dict(rule=rid, examined=r.examined, distinct_nontrivial=r.distinct_nontrivial,
                           floor=floor, violations=len(r.violations), doc=r.doc)
                      for (rid, r, floor) in results],
            "analysed": dict(bodies=len(P.bodies), adts=len(P.adts),
                             new_observer_sites=len(E.sites["new_observer"]),
                             create_sites=len(E.sites["create"]),
                             features=fx.get("features", []), facts_build_s=round(fx.get("_build_s", 0), 2)),
            "out_of_scope": ["feature web (does not build offline)", "cfg(test) code"],
            "known_findings_observed": [" | ".join(k) for (k, _, _) in known_hit],
            "thorough_selftest": selftest,
            "fail_closed_errors": errors,
            "exhaustive": True,
        },
        "assumptions": ASSUMPTIONS,
        "wall_s": round(time.time() - t0, 2),
        "violations": len(violations),
    }
    os.makedirs(os.path.join(VERIF, "evidence"), exist_ok=True)
    with open(os.path.join(VERIF, "evidence", pid + ".json"), "w") as f:
        json.dump(ev, f, indent=1)

    for (rid, r, floor) in results:
        print("rule %-28s examined=%-4d nontrivial=%-4d floor=%-3d violations=%d"
              % (rid, r.examined, r.distinct_nontrivial, floor, len(r.violations)))
    for (k, kf, v) in known_hit:
        print("KNOWN-FINDING: property=%s %s -- %s" % (pid, " | ".join(k), kf.get("what", v.what)))
    rc = 0
    if violations:
        os.makedirs(os.path.join(VERIF, "replay"), exist_ok=True)
        rp = os.path.join(VERIF, "replay", "%s.json" % pid)
        with open(rp, "w") as f:
            json.dump(dict(property=pid, violations=[v.to_json() for v in violations]), f, indent=1)
        for v in violations:
            print("  violation: [%s] %s @ %s:%s -- %s" % (v.rule, v.keystr(), v.file, v.line, v.what))
        print("VIOLATION property=%s replay=%s" % (pid, rp))
        rc = 1
    if errors:
        for e in errors:
            print("FAIL-CLOSED property=%s %s" % (pid, e))
        if rc == 0:
            rc = 2
    if rc == 0:
        print("OK property=%s (%d instances, %d rules, %.1fs)" % (pid, examined, len(results), time.time() - t0))
    return rc


if __name__ == "__main__":
    sys.exit(main(sys.argv))
