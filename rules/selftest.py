#!/usr/bin/env python3
"""Unit tests of the path algorithms on hand-made CFGs (run by MANIFEST.setup_cmd)."""
import os, sys
sys.path.insert(0, os.path.dirname(os.path.abspath(__file__)))
from effects import Effects


class B:
    def __init__(self, succ):
        self.succ = succ


def t_path_avoiding():
    # diamond 0->1->3, 0->2->3
    b = B({0: [1, 2], 1: [3], 2: [3], 3: []})
    assert Effects.path_avoiding(b, [3], [1]) == [0, 2, 3]
    assert Effects.path_avoiding(b, [3], [1, 2]) is None
    assert Effects.path_avoiding(b, [3], []) in ([0, 1, 3], [0, 2, 3])
    # loop 0->1->0, 1->2
    b = B({0: [1], 1: [0, 2], 2: []})
    assert Effects.path_avoiding(b, [2], []) == [0, 1, 2]
    assert Effects.path_avoiding(b, [2], [1]) is None
    assert Effects.path_avoiding(b, [2], [0]) is None      # start in avoid
    assert Effects.path_avoiding(b, [2], [], start=1) == [1, 2]


if __name__ == "__main__":
    t_path_avoiding()
    print("selftest ok")


def t_inline():
    """a private helper is spliced into its caller: parameter bound, call -> goto, return -> dest assign"""
    from inline import Inliner
    from model import norm, Body
    ty = {"s": "i32", "k": "prim"}
    helper = {"id": "m::helper", "kind": "fn", "vis": "crate", "parent_kind": "Mod", "argc": 1, "file": "f", "line": 1,
              "parent": "m", "root": "m::helper",
              "locals": [{"ty": ty}, {"ty": ty}],
              "blocks": [{"cleanup": False, "stmts": [{"k": "assign", "lhs": [0], "line": 1, "rv": {"k": "use", "op": {"k": "copy", "p": [1]}}}],
                          "term": {"k": "return", "line": 1}}]}
    caller = {"id": "m::caller", "kind": "fn", "vis": "pub", "parent_kind": "Mod", "argc": 1, "file": "f", "line": 5,
              "parent": "m", "root": "m::caller",
              "locals": [{"ty": ty}, {"ty": ty}, {"ty": ty}],
              "blocks": [{"cleanup": False, "stmts": [],
                          "term": {"k": "call", "line": 6, "exp": False, "target": 1, "dest": [2],
                                   "fn": {"k": "def", "path": "m::helper", "local": True, "inst": {"path": "m::helper", "local": True, "closure": False}, "targs": []},
                                   "args": [{"k": "copy", "p": [1], "t": ty}]}},
                         {"cleanup": False, "stmts": [{"k": "assign", "lhs": [0], "line": 7, "rv": {"k": "use", "op": {"k": "copy", "p": [2]}}}],
                          "term": {"k": "return", "line": 7}}]}
    inl = Inliner([helper, caller], norm, set())
    out = inl.inline(caller)
    assert len(out["blocks"]) == 3 and out["blocks"][0]["term"]["k"] == "goto"
    assert out["inlined"] == ["m::helper"]
    b = Body(out, {"adts": []})
    # the result of the (inlined) call is the caller's own parameter
    assert b.local_prov(0) == frozenset([("param", 1, ())]), b.local_prov(0)
    # a pub helper is not inlined
    helper2 = dict(helper, vis="pub")
    out2 = Inliner([helper2, caller], norm, set()).inline(caller)
    assert len(out2["blocks"]) == 2


def t_fieldroles():
    import fieldroles
    facts = {"adts": [{"path": "observer::Observer", "variants": [{"name": "Observer", "fields": [
        {"name": "a", "ty": {"s": "internals::function_wrapper::FunctionWrapper<'a, T, ()>"}, "leaves": []},
        {"name": "b", "ty": {"s": "internals::function_wrapper::FunctionWrapper<'a, rx_error::RxError, ()>"}, "leaves": []},
        {"name": "c", "ty": {"s": "internals::function_wrapper::FunctionWrapper<'a, (), ()>"}, "leaves": []},
        {"name": "d", "ty": {"s": "std::sync::Arc<std::sync::Mutex<std::option::Option<internals::function_wrapper::FunctionWrapper<'a, (), ()>>>>"}, "leaves": []},
        {"name": "e", "ty": {"s": "std::sync::Arc<std::sync::Mutex<bool>>"}, "leaves": []}]}]}], "bodies": []}
    ren = fieldroles.compute_renames(facts)
    assert ren == {("observer::Observer", "a"): "fn_next", ("observer::Observer", "b"): "fn_error", ("observer::Observer", "c"): "fn_complete",
                   ("observer::Observer", "d"): "fn_on_unsubscribe", ("observer::Observer", "e"): "terminated"}, ren


if __name__ == "__main__":
    t_inline()
    t_fieldroles()
    print("selftest (inline, fieldroles) ok")
