#!/usr/bin/env python3
"""Unit tests of the path algorithms on hand-made CFGs (run by MANIFEST.setup_cmd)."""
import os, sys
sys.path.insert(0, os.path.dirname(os.path.abspath(__file__)))
from effects import Effects


class B:
    def __init__(self, succ):
        self.succ = succ


def t_path_avoiding():
    # diamond 0->1->3, 0->2->3
    b = B({0: [1, 2], 1: [3], 2: [3], 3: []})
    assert Effects.path_avoiding(b, [3], [1]) == [0, 2, 3]
    assert Effects.path_avoiding(b, [3], [1, 2]) is None
    assert Effects.path_avoiding(b, [3], []) in ([0, 1, 3], [0, 2, 3])
    # loop 0->1->0, 1->2
    b = B({0: [1], 1: [0, 2], 2: []})
    assert Effects.path_avoiding(b, [2], []) == [0, 1, 2]
    assert Effects.path_avoiding(b, [2], [1]) is None
    assert Effects.path_avoiding(b, [2], [0]) is None      # start in avoid
    assert Effects.path_avoiding(b, [2], [], start=1) == [1, 2]


if __name__ == "__main__":
    t_path_avoiding()
    print("selftest ok")
