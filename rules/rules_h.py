"""Handler rules (DESIGN 5.3): H-early-stop, H-complete, H-error, H-serial, H-role-agreement,
H-register-first, R1 (retry drops the failed upstream first)."""
from core import RuleResult
from effects import *

STORED_ATOMS = ("create", "new_observer", "set_on_finalize", "set_on_unsubscribe", "fw_new",
                "observer_new", "subscription_new", "spawn")
LAZY = {"std::iter::Iterator::map", "std::iter::Iterator::filter", "std::iter::Iterator::cloned",
        "std::iter::Iterator::rev", "std::iter::Iterator::enumerate"}


class Handlers:
    """Handler triples with their context: role, registration site, root operator fn,
    the observable the observer is subscribed to (line-free naming of handlers)."""

    def __init__(self, P, E):
        self.P, self.E = P, E
        self.info = {}       # handler body id -> dict
        self.triples = []
        for (c, hs) in E.triples():
            site_body = c.body
            target = self._subscribed_to(c)
            root = self.type_root(site_body)
            t = dict(site=c, handlers=hs, root=root, target=target)
            self.triples.append(t)
            for r, hb in hs.items():
                if hb is not None:
                    self.info[hb.id] = dict(role=r, site=c, root=root, target=target, body=hb)

    def _subscribed_to(self, c):
        """what the observer registered at c is subscribed to, as an origin kind (no local names):
        arg = an Observable parameter of the operator, self = a field of the operator struct,
        call = the result of a call (flat_map's inner, on_error_resume_next's fallback, ..)"""
        b = c.body
        kinds = set()
        for s in b.calls:
            if atom(s) == "subscribe" and len(s.args) >= 2:
                pv = b.operand_prov(s.args[1])
                if any(rk == "ret" and rd == c.bb for (rk, rd, _) in pv):
                    for t in b.operand_prov(s.args[0]):
                        for g in self.P.global_cell(b, t, through_helpers=True):
                            gb = self.P.bodies[g[0]]
                            if g[1] == "param":
                                is_self = gb.kind == "assoc" and g[2] == 1 and (gb.locals[1].get("name") == "self")
                                kinds.add("self" if is_self else "arg")
                            elif g[1] == "ret":
                                kinds.add("call")
                            else:
                                kinds.add("other")
        return "+".join(sorted(kinds)) if kinds else "?"

    def type_root(self, body):
        """the item a body lexically belongs to, named by its TYPE (impl self type) or module - not by
        the function name, so that renaming / extracting private functions does not change keys."""
        b = body
        seen = set()
        while b is not None and b.id not in seen:
            seen.add(b.id)
            if b.kind == "assoc" and b.impl_self is not None and ty_adt(b.impl_self):
                return norm(ty_adt(b.impl_self))
            if b.kind == "assoc" and b.impl_self is not None:
                return norm(b.impl_self.get("s", b.nid))
            pk = b.raw.get("parent_kind")
            if b.kind == "fn" and pk not in ("Closure", "Fn", "AssocFn"):
                parts = b.nid.split("::")
                return "::".join(parts[:-1]) + "::" + parts[-1] if len(parts) > 1 else b.nid
            b = self.P.bodies.get(b.parent_id)
        return norm(body.root)

    def key(self, hb):
        i = self.info[hb.id]
        return (i["root"], "%s@%s" % (i["role"], i["target"]))

    def stable_name(self, body):
        """Line-free, closure-index-free, nesting-free name: the TYPE the body belongs to plus the
        body's own role (handler role + origin kind of what it observes, or SOURCE / TASK / COUNT_UP ..),
        so that adding closures, extracting helpers or building the handler elsewhere does not re-key."""
        if body.kind != "closure":
            return self.type_root(body)
        if body.id in self.info:
            i = self.info[body.id]
            label = "%s@%s" % (i["role"], i["target"])
        else:
            rs = sorted(r for r in self.E.role_of(body.id) if not r.startswith(("ARG:", "STD:")))
            if rs:
                label = rs[0]
            else:
                # an anonymous inner closure: name it after the nearest enclosing closure that has a role
                cr = self.P.created.get(body.id)
                parent = cr[0] if cr else None
                if parent is not None and parent.kind == "closure" and parent.id != body.id:
                    return self.stable_name(parent) + "/inner"
                label = "closure"
        return self.type_root(body) + "/" + label

    def is_trigger_triple(self, t):
        """A trigger/gate observer: its next-handler ignores its payload altogether (`|_, _|`)."""
        hb = t["handlers"].get("N")
        if hb is None or hb.argc < 3:
            return False

        def uses3(o):
            return isinstance(o, dict) and o.get("k") in ("copy", "move") and o["p"][0] == 3

        for i in hb.reach:
            bb = hb.blocks[i]
            for st in bb["stmts"]:
                if st["k"] != "assign":
                    continue
                rv = st["rv"]
                if rv.get("p", [None])[0] == 3:
                    return False
                for k in ("op", "a", "b"):
                    if uses3(rv.get(k)):
                        return False
                if any(uses3(o) for o in rv.get("ops", [])):
                    return False
            tm = bb["term"]
            if tm["k"] == "call" and any(uses3(a) for a in tm["args"]):
                return False
            if tm["k"] == "switch" and uses3(tm["discr"]):
                return False
        return True

    def context(self, body, _seen=None):
        """Nearest enclosing handler (walking closure creation parents; a local `fn` inherits the
        context of its callers when they all agree): (info, chain)."""
        chain = []
        b = body
        seen = set() if _seen is None else _seen
        while b is not None and b.id not in seen:
            seen.add(b.id)
            if b.id in self.info:
                return self.info[b.id], chain
            chain.append(b)
            cr = self.P.created.get(b.id)
            if cr:
                b = cr[0]
                continue
            if b.kind == "fn" or (b.kind == "assoc" and b.id in self.P.absorbed):
                ctxs = []
                for (cb, c) in self.callers(b):
                    i, _ = self.context(cb, seen)
                    ctxs.append(i)
                ids = {id(i) for i in ctxs}
                if ctxs and len(ids) == 1 and ctxs[0] is not None:
                    return ctxs[0], chain
            b = None
        return None, chain

    def callers(self, fnbody):
        if not hasattr(self, "_callers"):
            self._callers = {}
        if fnbody.id not in self._callers:
            out = []
            for x in self.P.orig.values():
                for c in x.calls:
                    if not c.indirect and c.local and c.path == fnbody.nid:
                        out.append((self.P.bodies.get(x.id, x), c))
            self._callers[fnbody.id] = out
        return self._callers[fnbody.id]

    def origins(self, body, operand):
        out = set()
        for t in body.operand_prov(operand):
            out |= self._origins_term(body, t, 0)
        return out

    def _origins_term(self, body, t, depth):
        """global terms; a parameter of a local `fn` is replaced by what its callers pass."""
        out = set()
        for g in self.P.global_cell(body, t):
            gb = self.P.bodies[g[0]]
            if g[1] == "param" and depth < 3 and ((gb.kind == "fn" and gb.raw.get("parent_kind") in ("Closure", "Fn", "AssocFn"))
                                                     or (gb.kind == "assoc" and gb.id in self.P.absorbed)):
                cs = self.callers(gb)
                if cs and g[2] - 1 < min(len(c.args) for (_, c) in cs):
                    for (cb, c) in cs:
                        for t2 in cb.operand_prov(c.args[g[2] - 1]):
                            for g2 in self._origins_term(cb, t2, depth + 1):
                                out.add((g2[0], g2[1], g2[2], g2[3] + g[3]))
                    continue
            out.add(g)
        return out

    def derived_from_param(self, body, operand, hbody, param):
        """Every origin of `operand` is parameter `param` of handler `hbody` (any field path)."""
        og = self.origins(body, operand)
        return bool(og) and all(bid == hbody.id and rk == "param" and rd == param
                                for (bid, rk, rd, _) in og)

    def contains_param(self, body, operand, hbody, param, depth=0):
        """`operand` is the parameter itself or an aggregate (enum variant / tuple / struct
        built in `body`) one of whose operands contains it."""
        if self.derived_from_param(body, operand, hbody, param):
            return True
        if depth > 3:
            return False
        for (rk, rd, path) in body.operand_prov(operand):
            if rk == "agg":
                st = body.blocks[rd[0]]["stmts"][rd[1]]
                if any(self.contains_param(body, o, hbody, param, depth + 1)
                       for o in st["rv"]["ops"]):
                    return True
        return False


class MustEngine:
    """'On every path from entry to return, an event satisfying sat(call, body) occurs',
    following synchronous inline calls and (deferred=True) posted tasks."""

    def __init__(self, E, sat, deferred=True):
        self.E, self.sat, self.deferred = E, sat, deferred
        self.memo = {}

    def good_blocks(self, b, stack=()):
        good = set()
        for c in b.calls:
            if self.sat(c, b):
                good.add(c.bb)
                continue
            a = atom(c)
            if a in STORED_ATOMS:
                continue
            if a == "post":
                if not self.deferred:
                    continue
                cl = c.arg_closure(1)
                t = self.E.P.bodies.get(cl) if cl else None
                if t is not None and t.id not in stack and self.holds(t, stack + (b.id,)):
                    good.add(c.bb)
                continue
            for t in self.E.inline_targets(c):
                if t.id in stack:
                    continue
                if self.holds(t, stack + (b.id,)):
                    good.add(c.bb)
                    break
        return good

    def holds(self, b, stack=()):
        if b.id in self.memo:
            return self.memo[b.id]
        good = self.good_blocks(b, stack)
        res = Effects.path_avoiding(b, b.returns, good) is None and bool(b.returns)
        if not stack:
            self.memo[b.id] = res
        return res

    def counterexample(self, b):
        good = self.good_blocks(b)
        return Effects.path_avoiding(b, b.returns, good)


def _is_subscribe_like(E):
    """sat-predicate: the call (or, via MustEngine recursion, an inline callee on all paths)
    subscribes a further upstream: inner_subscribe/subscribe."""
    def sat(c, b):
        return atom(c) == "subscribe"
    return sat


# --------------------------------------------------------------------------- H-early-stop

def h_early_stop(P, E, H):
    r = RuleResult("H-early-stop",
                   "every sink_complete(serial) outside a complete/error handler is preceded on "
                   "all paths by upstream_abort_observe(the same serial)")
    for c in E.sites["sink_complete"]:
        b = c.body
        if b.nid.startswith(SCTL + "::"):
            continue
        info, chain = H.context(b)
        key = (b.nid, "sink_complete")
        if info is None:
            r.error("sink_complete outside any handler context: %s line %d" % (b.nid, c.line))
            continue
        role = info["role"]
        hb = info["body"]
        hkey = H.key(hb)
        if role in ("C", "E"):
            r.instance(hkey + ("sink_complete in %s-context" % role,), False)
            continue
        # N context: pairing required inside the body that holds the call
        serial_og = H.origins(b, c.args[1])

        def is_abort_same(x, xb=b):
            return atom(x) == "abort" and H.origins(xb, x.args[1]) == serial_og

        aborts = [x.bb for x in b.calls if is_abort_same(x)]
        path = Effects.path_avoiding(b, [c.bb], aborts)
        r.instance(hkey + ("early sink_complete",), True,
                   "N-handler completes at line-free site %s; abort blocks %s" % (b.nid, aborts))
        if path is not None:
            r.violate(hkey + ("sink_complete without upstream_abort_observe",),
                      "next-handler completes downstream with sink_complete(serial) on a path that "
                      "never calls upstream_abort_observe(serial): the upstream stays subscribed",
                      body=b, line=c.line, path=E.describe_path(b, path))
    return r


# --------------------------------------------------------------------------- H-serial

def h_serial(P, E, H):
    r = RuleResult("H-serial", "serial arguments of sink_complete/upstream_abort_observe derive "
                               "from the enclosing handler's own serial parameter")
    for a in ("sink_complete", "abort"):
        for c in E.sites[a]:
            b = c.body
            if b.nid.startswith(SCTL + "::"):
                continue
            info, _ = H.context(b)
            if info is None:
                r.error("%s outside handler context in %s" % (a, b.nid))
                continue
            hb = info["body"]
            ok = H.derived_from_param(b, c.args[1], hb, 2)
            r.instance(H.key(hb) + (a,), True, "serial origin: %s" % sorted(
                P.cell_name(g) for g in H.origins(b, c.args[1])))
            if not ok:
                r.violate(H.key(hb) + (a + " foreign serial",),
                          "%s is given a serial that is not the handler's own" % a,
                          body=b, line=c.line)
    return r


# --------------------------------------------------------------------------- H-complete

# §5.9: a *trigger* observer (its next-handler never forwards its own payload: take_until /
# skip_until / sample triggers) may ignore its own completion - a trigger that completes without
# firing changes nothing - provided the data input registered in the same body forces completion.


def _trigger_complete_exempt(P, E, H, t):
    if not H.is_trigger_triple(t):
        return False
    site_body = t["site"].body
    for o in H.triples:
        if o is t or o["site"].body.id != site_body.id or H.is_trigger_triple(o):
            continue
        cb = o["handlers"].get("C")
        if cb is not None and any(atom(c) == "sink_complete_force" for c in cb.calls):
            return True
    return False


def h_complete(P, E, H, scope=None):
    r = RuleResult("H-complete", "every complete-handler reaches a downstream completion, a "
                                 "successor subscription, or drops itself (amb loser) on every path")
    for t in H.triples:
        hb = t["handlers"].get("C")
        site = t["site"]
        if hb is None:
            r.error("complete handler of new_observer in %s is not a closure" % site.body.nid)
            continue
        key = H.key(hb)
        if scope and not scope(t):
            continue

        def sat(c, b, hb=hb):
            a = atom(c)
            if a == "sink_complete_force":
                return True
            if a == "sink_complete":
                return H.derived_from_param(b, c.args[1], hb, 2)
            if a == "abort":
                # dropping oneself is an answer only for a handler that completes downstream on another path (amb: the
                # winner completes, a loser drops itself); a handler that can only drop itself never completes anything
                return completes_somewhere and H.derived_from_param(b, c.args[1], hb, 2)
            if a == "subscribe":
                return True
            return False

        completes_somewhere = any(atom(c) in ("sink_complete", "sink_complete_force")
                                  for x in [hb] + P.descendants(hb) for c in x.calls)
        eng = MustEngine(E, sat)
        ok = eng.holds(hb)
        nontrivial = len(hb.calls) > 0
        r.instance(key, nontrivial, "complete-handler %s" % hb.nid)
        if not ok:
            if _trigger_complete_exempt(P, E, H, t):
                continue
            path = eng.counterexample(hb)
            r.violate(key + ("no completion on some path",),
                      "complete-handler can return without sink_complete(own serial) / "
                      "sink_complete_force / successor subscription",
                      body=hb, path=E.describe_path(hb, path or []))
    return r


# --------------------------------------------------------------------------- H-error (+E1, R1, M1)

# §5.9 exemption: `contains` maps error to (false, complete): pinned by the asserted test
# contains::test::error.
H_ERROR_EXEMPT = {
    "operators::contains::Contains",
}


def h_error(P, E, H, scope=None):
    r = RuleResult("H-error", "every error-handler forwards its own error object to sink_error "
                              "on every path, or is a structural recovery (abort own upstream, then "
                              "resubscribe) / materialisation")
    for t in H.triples:
        hb = t["handlers"].get("E")
        if hb is None:
            r.error("error handler of new_observer in %s is not a closure" % t["site"].body.nid)
            continue
        key = H.key(hb)
        if scope and not scope(t):
            continue

        def own_abort_blocks(b, hb=hb):
            return [x.bb for x in b.calls
                    if atom(x) == "abort" and H.derived_from_param(b, x.args[1], hb, 2)]

        def sat(c, b, hb=hb):
            a = atom(c)
            if a == "sink_error":
                return H.derived_from_param(b, c.args[1], hb, 3)
            if a == "abort":
                # amb loser: drops itself
                return H.derived_from_param(b, c.args[1], hb, 2) and not _then_subscribes(b, c)
            if a == "subscribe":
                # recovery: only after the failed upstream was dropped on every path
                ab = own_abort_blocks(b)
                return Effects.path_avoiding(b, [c.bb], ab) is None
            if a == "sink_complete":
                # materialisation: sink_next(.. own e ..) precedes on every path
                nx = [x.bb for x in b.calls if atom(x) == "sink_next"
                      and H.contains_param(b, x.args[1], hb, 3)]
                return (H.derived_from_param(b, c.args[1], hb, 2)
                        and Effects.path_avoiding(b, [c.bb], nx) is None)
            return False

        def _then_subscribes(b, c):
            # abort followed (on some path) by a subscription is a recovery, judged at the
            # subscribe event instead
            after = b.reachable_from(c.bb)
            for x in b.calls:
                if x.bb in after and (atom(x) == "subscribe" or
                                      any("subscribe" in E.may(tt) for tt in E.inline_targets(x)
                                          if atom(x) not in STORED_ATOMS)):
                    return True
            return False

        # inline callees that subscribe (do_subscribe) count as subscribe when preceded by abort
        def sat2(c, b, hb=hb):
            if sat(c, b):
                return True
            if atom(c) is None and b.id == hb.id:
                for tt in E.inline_targets(c):
                    if "subscribe" in E.may(tt) and MustEngine(E, lambda x, y: atom(x) == "subscribe").holds(tt):
                        ab = own_abort_blocks(b)
                        if Effects.path_avoiding(b, [c.bb], ab) is None:
                            return True
            return False

        eng = MustEngine(E, sat2)
        ok = eng.holds(hb)
        r.instance(key, len(hb.calls) > 0, "error-handler %s" % hb.nid)
        if not ok:
            if key[0] in H_ERROR_EXEMPT:
                continue
            path = eng.counterexample(hb)
            r.violate(key + ("error not forwarded on some path",),
                      "error-handler can return without sink_error(own error) and without a "
                      "structural recovery: the error is swallowed or replaced",
                      body=hb, path=E.describe_path(hb, path or []))
        # the error is the terminal the subscriber gets: nothing in the handler completes downstream BEFORE it forwards the error
        # (sink_complete on the only upstream completes the subscriber; the sink_error after it then finds nobody)
        errs = [c for c in hb.calls if atom(c) == "sink_error"]
        comps = [c for c in hb.calls if atom(c) in ("sink_complete", "sink_complete_force")]
        for ce in errs:
            for cc in comps:
                if cc.bb != ce.bb and ce.bb in hb.reachable_from(cc.bb):
                    r.violate(key + ("completes before it forwards the error",),
                              "the error-handler calls %s and only then sink_error: the completion reaches the subscriber first and the "
                              "error is dropped at the closed gate" % atom(cc), body=hb, line=cc.line)
                    break
    return r


def r1_retry_drops_first(P, E, H):
    """R1: inside an error-handler every (re)subscription is preceded on all paths by
    upstream_abort_observe(own serial)."""
    r = RuleResult("R1", "a recovery handler drops the failed upstream before it subscribes again")
    for t in H.triples:
        hb = t["handlers"].get("E")
        if hb is None:
            continue
        key = H.key(hb)
        subs = []
        for c in hb.calls:
            if atom(c) == "subscribe":
                subs.append(c)
            elif atom(c) not in STORED_ATOMS and atom(c) != "post":
                if any("subscribe" in E.may(tt) for tt in E.inline_targets(c)):
                    subs.append(c)
        if not subs:
            continue
        ab = [x.bb for x in hb.calls
              if atom(x) == "abort" and H.derived_from_param(hb, x.args[1], hb, 2)]
        for c in subs:
            r.instance(key + ("resubscribe",), True, "resubscription via %s" % c.path)
            path = Effects.path_avoiding(hb, [c.bb], ab)
            if path is not None:
                r.violate(key + ("resubscribes without dropping the failed upstream",),
                          "error-handler subscribes again on a path that did not call "
                          "upstream_abort_observe(own serial)", body=hb, line=c.line,
                          path=E.describe_path(hb, path))
    return r


# --------------------------------------------------------------------------- H-role-agreement

# the one place that originates an error: timeout's timer callback (TimedOut)
ROLE_AGREEMENT_ORIGINATORS = {"operators::timeout::Timeout"}


def h_role_agreement(P, E, H):
    r = RuleResult("H-role-agreement", "every value passed to sink_error derives from an RxError "
                                       "the handler received (own e, or Material::Error payload)")
    for c in E.sites["sink_error"]:
        b = c.body
        if b.nid.startswith(SCTL + "::"):
            continue
        info, _ = H.context(b)
        root = H.type_root(b)
        key = (root, "sink_error@" + (info["role"] if info else "?"))
        if info is None:
            r.error("sink_error outside handler context in %s" % b.nid)
            continue
        hb = info["body"]
        ok = H.derived_from_param(b, c.args[1], hb, 3)
        r.instance(key, True, "payload origin %s" % sorted(P.cell_name(g) for g in H.origins(b, c.args[1])))
        if not ok and root not in ROLE_AGREEMENT_ORIGINATORS:
            r.violate(key + ("foreign error payload",),
                      "sink_error is given a value that is not derived from the error/notification "
                      "this handler received", body=b, line=c.line)
    return r


# --------------------------------------------------------------------------- H-register-first

def _effective_events(P, E, b):
    """bb -> set of atoms that may run when the call at bb executes, with closures given to
    lazy iterator adapters placed at the consuming call."""
    ev = defaultdict(set)
    iterating = set()
    for c in b.calls:
        a = atom(c)
        if a:
            ev[c.bb].add(a)
        if a in STORED_ATOMS or a == "post":
            continue
        targets = E.inline_targets(c)
        if not targets:
            continue
        sites = [c]
        if c.path in LAZY:
            sites = _consumers(b, c)
            if not sites:
                ev[c.bb].add("!unconsumed-lazy")
                sites = [c]
        for t in targets:
            m = E.may(t)
            for s in sites:
                ev[s.bb] |= m
                if c.path in LAZY or c.path in ("std::iter::Iterator::for_each",
                                                "std::iter::Iterator::all"):
                    if t.kind == "closure" and ty_closure_arg(c, t):
                        iterating.add((s.bb, t.id))
    # a lazy adapter's iterator consumed piecemeal by a NESTED closure (`let mut pool = (0..n).map(|_| register()); ..
    # inputs.for_each(|o| o.subscribe(pool.next().unwrap()))`): the registering closure runs wherever that nested closure runs
    CONSUMING = ("std::iter::Iterator::next", "std::iter::Iterator::nth", "std::iter::Iterator::last", "std::iter::Iterator::for_each",
                 "std::iter::Iterator::collect", "std::iter::FromIterator::from_iter", "std::iter::Iterator::count", "std::iter::Iterator::fold",
                 "std::iter::Iterator::next_back", "std::iter::Iterator::find", "std::iter::Iterator::all", "std::iter::Iterator::any")
    for c in b.calls:
        if c.path not in LAZY:
            continue
        m = set()
        for t in E.inline_targets(c):
            m |= E.may(t)
        if not m:
            continue
        for D in P.descendants(b):
            eats = False
            for k in D.calls:
                if k.path in CONSUMING and k.args:
                    for t in D.operand_prov(k.args[0]):
                        if t[0] == "upvar":
                            par, provs = P.upvar_origin(D, t[1])
                            # through the chain of enclosing closures up to b
                            hops = 0
                            while par is not None and par.id != b.id and hops < 4 and all(pv[0] == "upvar" for pv in provs) and provs:
                                hops += 1
                                par, provs = P.upvar_origin(par, next(iter(provs))[1])
                            if par is not None and par.id == b.id and any(pv[0] == "ret" and pv[1] == c.bb for pv in provs):
                                eats = True
            if not eats:
                continue
            top = D
            while top.parent_id != b.id and top.parent_id in P.bodies and P.bodies[top.parent_id].kind == "closure":
                top = P.bodies[top.parent_id]
            for (role, s, idx) in E.roles.get(top.id, []):
                if s.body.id == b.id:
                    ev[s.bb] |= m
                    if "new_observer" in m and "subscribe" in E.may(top):
                        ev[s.bb].add("!registers-while-subscribing")
    return ev, iterating


def ty_closure_arg(c, t):
    return any(ty_closure(a.get("t")) == t.id for a in c.args)


def _consumers(b, c, depth=0):
    out = []
    for s in b.calls:
        if s.bb == c.bb:
            continue
        for a in s.args:
            pv = b.operand_prov(a)
            if any(rk == "ret" and rd == c.bb for (rk, rd, _) in pv):
                if s.path in LAZY and depth < 4:
                    out += _consumers(b, s, depth + 1)
                else:
                    out.append(s)
                break
    return out


def h_register_first(P, E, H):
    r = RuleResult("H-register-first", "within one activation no upstream is subscribed before "
                                       "every upstream observer of that activation is registered")
    for b in P.bodies.values():
        m = E.may(b)
        if "new_observer" not in m or "subscribe" not in m:
            continue
        if b.nid.startswith(SCTL + "::") or b.nid.startswith(OBSERVABLE + "::"):
            continue
        ev, iterating = _effective_events(P, E, b)
        reg = [bb for bb, s in ev.items() if "new_observer" in s]
        sub = [bb for bb, s in ev.items() if "subscribe" in s]
        if not reg or not sub:
            continue
        key = (b.nid,)
        r.instance(key, len(reg) + len(sub) > 2 or bool(iterating),
                   "register blocks %s subscribe blocks %s" % (sorted(reg), sorted(sub)))
        if any("!unconsumed-lazy" in s for s in ev.values()):
            r.error("lazy iterator adapter with a registering closure is not consumed in %s" % b.nid)
        bad = None
        for sbb in sub:
            after = b.reachable_from(sbb)
            for rbb in reg:
                if rbb in after:
                    # same call doing both (do_subscribe(..)) on a straight line is the
                    # register-then-subscribe idiom; only a real later registration counts
                    bad = (sbb, rbb)
                    break
            if bad:
                break
        if not bad:
            for bb_, s_ in ev.items():
                if "!registers-while-subscribing" in s_:
                    bad = (bb_, bb_)
        if not bad:
            for (bb, tid) in iterating:
                tm = E.may(P.bodies[tid])
                if "new_observer" in tm and "subscribe" in tm:
                    bad = (bb, bb)
        if bad:
            path = Effects.path_avoiding(b, [bad[1]], [], start=bad[0]) if bad[0] != bad[1] else [bad[0]]
            r.violate((b.nid, "subscribe before register"),
                      "an upstream is subscribed and a further upstream observer is registered "
                      "afterwards in the same activation: a synchronous completion of the first "
                      "source finds no other registered input and completes the whole operator",
                      body=b, line=b.call_at(bad[0]).line if b.call_at(bad[0]) else None,
                      path=E.describe_path(b, path or []))
    return r


# --------------------------------------------------------------------------- T-rxerror (C04 type-level identity)

def rxerror_immutable(P, E, H=None):
    """RxError is Clone by Arc sharing; its payload cannot be mutated or swapped through the API:
    no interior-mutable leaf (lock/cell/atomic) in RxError's field tree, the `inner` field is an
    Arc, Clone is derived (Arc clone), and no method of RxError takes `&mut self` or returns `&mut`."""
    r = RuleResult("T-rxerror", "RxError shares one immutable payload between clones (no interior mutability, no &mut API)")
    adt = P.adts.get("rx_error::RxError")
    inner = P.adts.get("rx_error::RxErrorInner")
    if not adt or not inner:
        r.error("anchor missing: RxError / RxErrorInner")
        return r
    for a in (adt, inner):
        for v in a["variants"]:
            for f in v["fields"]:
                locks = [l for l in f["leaves"] if l["end"] == "lock"]
                r.instance((norm(a["path"]), f["name"]), True, "type %s; interior-mutable leaves: %d" % (f["ty"]["s"], len(locks)))
                if locks:
                    r.violate((norm(a["path"]), f["name"], "interior mutability in the error payload"),
                              "RxError.%s contains %s: a forwarded clone no longer denotes a fixed payload" % (f["name"], locks[0]["ty"]))
    fields = {f["name"]: f for v in adt["variants"] for f in v["fields"]}
    if "inner" not in fields or not fields["inner"]["ty"]["s"].startswith("std::sync::Arc<"):
        r.violate(("rx_error::RxError", "inner", "payload not shared by Arc"),
                  "RxError.inner is %s: clones would copy (or lose) the payload instead of sharing it"
                  % (fields.get("inner", {}).get("ty", {}).get("s")))
    n = 0
    for b in P.bodies.values():
        st = norm(ty_adt(b.impl_self or {}) or "")
        if b.kind == "assoc" and st == "rx_error::RxError":
            n += 1
            sig = [b.locals[i]["ty"] for i in range(0, b.argc + 1)]
            r.instance((b.nid, "signature"), True, " , ".join(t["s"] for t in sig))
            for i, t in enumerate(sig):
                if t.get("k") == "ref" and t.get("mut") and b.impl_trait not in ("std::fmt::Debug", "std::fmt::Display"):
                    r.violate((b.nid, "&mut in RxError API"), "method %s %s `&mut`: the payload can be replaced behind other clones"
                              % (b.nid, "returns" if i == 0 else "takes"), body=b)
            if b.impl_trait == "std::clone::Clone" and b.name == "clone":
                # derived clone = clones the Arc field only
                cl = [c for c in b.calls if c.path == "std::clone::Clone::clone"]
                if len(cl) != 1 or "Arc" not in (cl[0].targs[0].get("s", "") if cl[0].targs else ""):
                    r.violate((b.nid, "clone does not share the Arc"), "RxError::clone does not simply clone the Arc", body=b)
    if n < 4:
        r.error("T-rxerror: only %d RxError methods found (floor 4)" % n)
    # an RxError is never wrapped into another RxError: a generic constructor (RxError::from_error / from_result, observables::error,
    # observables::from_result, anything generic over the payload type) instantiated with E = RxError boxes the error as the PAYLOAD
    # of a new one - the subscriber's downcast_ref::<Original>() then finds an RxError, not the original value
    nwrap = 0
    for b in P.orig.values():
        if b.kind == "const":
            continue
        for c in b.calls:
            ta = getattr(c, "targs", None) or []
            if not ta:
                continue
            if not (c.path.startswith("rx_error::") or c.path.startswith("observables::from_result") or c.path.startswith("observables::error")):
                continue
            nwrap += 1
            if any(isinstance(t, dict) and norm(t.get("path") or "") == "rx_error::RxError" for t in ta):
                r.violate((b.nid, "RxError wrapped into an RxError"),
                          "%s instantiates %s with the payload type RxError: the error is boxed as the payload of a new RxError and "
                          "downcast_ref::<E>() on what the subscriber receives no longer finds the original value" % (b.nid, c.path), body=b, line=c.line)
    r.instance(("rx_error::RxError", "constructors"), True, "%d generic error constructor calls examined" % nwrap)
    return r


# --------------------------------------------------------------------------- amb mirrors its winner (C03)

def amb_mirror(P, E, H):
    """amb mirrors ONE input: when the winner completes the whole subscription completes, whatever
    the losers do.  Structural condition: amb's complete-handler never uses the counting
    sink_complete (which waits for every registered input) and reaches sink_complete_force on its
    winner path."""
    r = RuleResult("D-amb-mirror", "amb's winner completion ends the subscription (sink_complete_force, not the counting sink_complete)")
    ts = [t for t in H.triples if t["root"] == "operators::amb::Amb"]
    if not ts:
        r.error("anchor missing: amb handler triple")
    for t in ts:
        hb = t["handlers"].get("C")
        if hb is None:
            r.error("amb complete handler is not a closure")
            continue
        counting = [c for c in hb.calls if atom(c) == "sink_complete"]
        force = [c for c in hb.calls if atom(c) == "sink_complete_force"]
        r.instance(H.key(hb) + ("winner completion",), True, "sink_complete %s force %s" % ([c.bb for c in counting], [c.bb for c in force]))
        if counting or not force:
            r.violate(H.key(hb) + ("winner completion waits for the losers",),
                      "amb completes through the counting sink_complete(serial): downstream completes only when every input is "
                      "gone, so a silent loser (never(), an idle subject) keeps the subscription open forever after the winner "
                      "completed", body=hb, line=(counting[0].line if counting else None))
    return r


def combine_latest_not_zip(P, E, H):
    """combine_latest emits, on every item of any input, the LATEST value of each input; zip pairs the
    i-th items through FIFO queues.  An implementation of combine_latest that delegates to Zip
    therefore computes another function.  Structural condition: nothing in impl CombineLatest
    builds or runs a Zip."""
    r = RuleResult("D-combine-latest", "combine_latest is not implemented by zip's FIFO pairing")
    n = 0
    hits = []
    for b in P.bodies.values():
        if b.id in P.absorbed or H.type_root(b) != "operators::combine_latest::CombineLatest":
            continue
        n += 1
        for c in b.calls:
            if c.path.startswith("operators::zip::Zip::") or (c.impl_self and "operators::zip::Zip" in c.impl_self.get("s", "")):
                hits.append((b, c))
    r.instance(("operators::combine_latest::CombineLatest", "delegation"), True, "bodies %d, calls into Zip %d" % (n, len(hits)))
    if n == 0:
        r.error("anchor missing: impl CombineLatest")
    if hits:
        b, c = hits[0]
        r.violate(("operators::combine_latest::CombineLatest", "delegates to zip"),
                  "combine_latest is built on Zip (%s): it pairs the i-th items instead of combining the latest values "
                  "(a:1,2,3 then b:10,20 gives [1,10],[2,20] instead of [3,10],[3,20])" % c.path, body=b, line=c.line)
    return r
