"""MIR-level inlining on the facts (JSON) so that every per-body analysis sees through private
helper functions and directly called local closures.

A call is spliced in when the callee is a crate-local body that is
  * a private / pub(crate) / nested `fn` or method (helpers a refactor extracts), or
  * a closure invoked through Fn/FnMut/FnOnce::call* on its concrete closure type,
and is NOT part of the slot-API vocabulary the rules are written in (those stay calls), is not
on the current inlining stack (recursion), and is small.  Splicing = copy the callee's locals and
blocks with renumbering, bind parameters by assignments in the call block, turn the call into a
goto, and turn every callee `return` into `dest = <callee _0>; goto <call target>`.
Provenance, guard liveness, dominators etc. then work on the spliced body unchanged."""
import copy

MAX_BLOCKS = 120
MAX_DEPTH = 4


def _shift_place(p, off):
    return [p[0] + off] + p[1:]


def _shift_operand(o, off):
    if o.get("k") in ("copy", "move"):
        o = dict(o)
        o["p"] = _shift_place(o["p"], off)
    return o


def _shift_rvalue(rv, off):
    rv = dict(rv)
    for k in ("op", "a", "b"):
        if k in rv and isinstance(rv[k], dict):
            rv[k] = _shift_operand(rv[k], off)
    if "p" in rv:
        rv["p"] = _shift_place(rv["p"], off)
    if "ops" in rv:
        rv["ops"] = [_shift_operand(o, off) for o in rv["ops"]]
    return rv


def _shift_block(bb, offL, offB, dest, target, ret_line):
    nb = {"cleanup": bb["cleanup"], "stmts": [], "term": None, "inl": True}
    for s in bb["stmts"]:
        s = dict(s)
        if s["k"] == "assign":
            s["lhs"] = _shift_place(s["lhs"], offL)
            s["rv"] = _shift_rvalue(s["rv"], offL)
        elif s["k"] in ("dead", "live"):
            s["l"] = s["l"] + offL
        elif s["k"] == "setdiscr":
            s["lhs"] = _shift_place(s["lhs"], offL)
        nb["stmts"].append(s)
    t = dict(bb["term"])
    k = t["k"]
    if k == "return":
        nb["stmts"].append({"k": "assign", "lhs": list(dest), "line": t.get("line", ret_line),
                            "rv": {"k": "use", "op": {"k": "move", "p": [offL]}}})
        if target is None:
            t = {"k": "unreachable", "line": t.get("line", ret_line)}
        else:
            t = {"k": "goto", "target": target, "line": t.get("line", ret_line)}
    else:
        if "target" in t and t["target"] is not None:
            t["target"] = t["target"] + offB
        if k == "switch":
            t["discr"] = _shift_operand(t["discr"], offL)
            t["targets"] = [[v, b + offB] for v, b in t["targets"]]
            t["otherwise"] = t["otherwise"] + offB
        elif k == "call":
            t["args"] = [_shift_operand(a, offL) for a in t["args"]]
            t["dest"] = _shift_place(t["dest"], offL)
            f = t["fn"]
            if f.get("k") == "indirect":
                f = dict(f)
                f["op"] = _shift_operand(f["op"], offL)
                t["fn"] = f
        elif k == "drop":
            t["p"] = _shift_place(t["p"], offL)
        elif k == "assert":
            t["cond"] = _shift_operand(t["cond"], offL)
        elif k == "falseedge":
            t["imag"] = t["imag"] + offB
    nb["term"] = t
    return nb


class Inliner:
    def __init__(self, raw_bodies, norm, no_inline):
        self.raw = {r["id"]: r for r in raw_bodies}
        self.norm = norm
        self.by_nid = {}
        for r in raw_bodies:
            self.by_nid.setdefault(norm(r["id"]), []).append(r)
        self.no_inline = set(no_inline)
        self.memo = {}

    def _callee(self, term):
        f = term["fn"]
        if f.get("k") != "def":
            return None, False
        inst = f.get("inst")
        is_closure_call = f.get("trait") in ("std::ops::Fn", "std::ops::FnMut", "std::ops::FnOnce")
        cand = None
        if inst and inst.get("local"):
            rs = self.by_nid.get(self.norm(inst["path"]), [])
            if len(rs) == 1:
                cand = rs[0]
        if cand is None and f.get("local") and not is_closure_call:
            rs = self.by_nid.get(self.norm(f["path"]), [])
            if len(rs) == 1:
                cand = rs[0]
        if cand is None:
            return None, False
        if is_closure_call:
            return (cand, True) if cand["kind"] == "closure" else (None, False)
        if cand["kind"] == "closure":
            return None, False
        if self.norm(cand["id"]) in self.no_inline or self.norm(f.get("path", "")) in self.no_inline:
            return None, False
        nested = cand.get("parent_kind") in ("Closure", "Fn", "AssocFn")
        if cand.get("vis") == "pub" and not nested:
            return None, False
        if cand.get("impl_trait"):
            return None, False
        return cand, False

    def inline(self, raw, depth=MAX_DEPTH, stack=()):
        key = raw["id"]
        if not stack and key in self.memo:
            return self.memo[key]
        locals_ = list(raw["locals"])
        blocks = [dict(b, stmts=list(b["stmts"])) for b in raw["blocks"]]
        n0 = len(blocks)
        spliced = []
        for i in range(n0):
            bb = blocks[i]
            if bb["cleanup"]:
                continue
            t = bb["term"]
            if t["k"] != "call" or depth <= 0:
                continue
            callee, is_cl = self._callee(t)
            if callee is None or callee["id"] in stack or callee["id"] == raw["id"]:
                continue
            if len(callee["blocks"]) > MAX_BLOCKS:
                continue
            cin = self.inline(callee, depth - 1, stack + (raw["id"],))
            if len(cin["blocks"]) + len(blocks) > 1500:
                continue
            offL, offB = len(locals_), len(blocks)
            locals_.extend(cin["locals"])
            line = t.get("line", 0)
            args = t["args"]
            binds = []
            if is_cl:
                if len(args) >= 1:
                    binds.append((offL + 1, args[0]))
                if len(args) >= 2 and args[1].get("k") in ("copy", "move"):
                    tp = args[1]["p"]
                    for k in range(cin["argc"] - 1):
                        binds.append((offL + 2 + k, {"k": "move", "p": tp + [".%d" % k]}))
            else:
                for k in range(min(cin["argc"], len(args))):
                    binds.append((offL + 1 + k, args[k]))
            for (l, op) in binds:
                o = {kk: vv for kk, vv in op.items() if kk != "t"}
                bb["stmts"].append({"k": "assign", "lhs": [l], "line": line, "rv": {"k": "use", "op": o}})
            for cb in cin["blocks"]:
                blocks.append(_shift_block(cb, offL, offB, t["dest"], t["target"], line))
            bb["term"] = {"k": "goto", "target": offB, "line": line, "inlined_call": self.norm(callee["id"])}
            spliced.append(self.norm(callee["id"]))
        out = dict(raw)
        out["locals"] = locals_
        out["blocks"] = blocks
        out["inlined"] = spliced + [x for x in raw.get("inlined", [])]
        if not stack:
            self.memo[key] = out
        return out
