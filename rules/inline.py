"""MIR-level inlining on the facts (JSON) so that every per-body analysis sees through private
helper functions and directly called local closures.

A call is spliced in when the callee is a crate-local body that is
  * a private / pub(crate) / nested `fn` or method (helpers a refactor extracts), or
  * a closure invoked through Fn/FnMut/FnOnce::call* on its concrete closure type,
and is NOT part of the slot-API vocabulary the rules are written in (those stay calls), is not
on the current inlining stack (recursion), and is small.  Splicing = copy the callee's locals and
blocks with renumbering, bind parameters by assignments in the call block, turn the call into a
goto, and turn every callee `return` into `dest = <callee _0>; goto <call target>`.
Provenance, guard liveness, dominators etc. then work on the spliced body unchanged."""
import copy

MAX_BLOCKS = 120
MAX_DEPTH = 4


def _shift_place(p, off):
    return [p[0] + off] + p[1:]


def _shift_operand(o, off):
    if o.get("k") in ("copy", "move"):
        o = dict(o)
        o["p"] = _shift_place(o["p"], off)
    return o


def _shift_rvalue(rv, off):
    rv = dict(rv)
    for k in ("op", "a", "b"):
        if k in rv and isinstance(rv[k], dict):
            rv[k] = _shift_operand(rv[k], off)
    if "p" in rv:
        rv["p"] = _shift_place(rv["p"], off)
    if "ops" in rv:
        rv["ops"] = [_shift_operand(o, off) for o in rv["ops"]]
    return rv


def _shift_block(bb, offL, offB, dest, target, ret_line):
    nb = {"cleanup": bb["cleanup"], "stmts": [], "term": None, "inl": True}
    for s in bb["stmts"]:
        s = dict(s)
        if s["k"] == "assign":
            s["lhs"] = _shift_place(s["lhs"], offL)
            s["rv"] = _shift_rvalue(s["rv"], offL)
        elif s["k"] in ("dead", "live"):
            s["l"] = s["l"] + offL
        elif s["k"] == "setdiscr":
            s["lhs"] = _shift_place(s["lhs"], offL)
        nb["stmts"].append(s)
    t = dict(bb["term"])
    k = t["k"]
    if k == "return":
        nb["stmts"].append({"k": "assign", "lhs": list(dest), "line": t.get("line", ret_line),
                            "rv": {"k": "use", "op": {"k": "move", "p": [offL]}}})
        if target is None:
            t = {"k": "unreachable", "line": t.get("line", ret_line)}
        else:
            t = {"k": "goto", "target": target, "line": t.get("line", ret_line)}
    else:
        if "target" in t and t["target"] is not None:
            t["target"] = t["target"] + offB
        if k == "switch":
            t["discr"] = _shift_operand(t["discr"], offL)
            t["targets"] = [[v, b + offB] for v, b in t["targets"]]
            t["otherwise"] = t["otherwise"] + offB
        elif k == "call":
            t["args"] = [_shift_operand(a, offL) for a in t["args"]]
            t["dest"] = _shift_place(t["dest"], offL)
            f = t["fn"]
            if f.get("k") == "indirect":
                f = dict(f)
                f["op"] = _shift_operand(f["op"], offL)
                t["fn"] = f
        elif k == "drop":
            t["p"] = _shift_place(t["p"], offL)
        elif k == "assert":
            t["cond"] = _shift_operand(t["cond"], offL)
        elif k == "falseedge":
            t["imag"] = t["imag"] + offB
    nb["term"] = t
    return nb


def _fold_known_discriminants(blocks):
    """After splicing, a helper's `match arg { Some(..) => .., None => .. }` often tests an aggregate the caller
    built a few statements earlier (finish(Some(e)) / finish(None)).  A switch on the discriminant of a local that
    has exactly one definition in the body, namely an enum aggregate of a known variant (possibly through plain
    moves), can only go one way: replace it by a goto, so the infeasible arm disappears from every path analysis."""
    defs = {}
    for bb in blocks:
        if bb.get("cleanup"):
            continue
        for st in bb["stmts"]:
            if st["k"] == "assign":
                l = st["lhs"][0]
                defs.setdefault(l, []).append(st if len(st["lhs"]) == 1 else None)
        t = bb["term"]
        if t["k"] == "call" and t.get("dest"):
            defs.setdefault(t["dest"][0], []).append(None)

    def variant(l, depth=0):
        ds = defs.get(l, [])
        if len(ds) != 1 or ds[0] is None or depth > 6:
            return None
        rv = ds[0]["rv"]
        if rv["k"] == "agg" and rv.get("ak") == "adt" and "vidx" in rv:
            return rv["vidx"]
        if rv["k"] == "use" and rv["op"].get("k") in ("copy", "move") and len(rv["op"]["p"]) == 1:
            return variant(rv["op"]["p"][0], depth + 1)
        return None

    for bb in blocks:
        if bb.get("cleanup"):
            continue
        t = bb["term"]
        if t["k"] != "switch" or t["discr"].get("k") not in ("copy", "move") or len(t["discr"]["p"]) != 1:
            continue
        ds = defs.get(t["discr"]["p"][0], [])
        if len(ds) != 1 or ds[0] is None or ds[0]["rv"]["k"] != "discr":
            continue
        pl = ds[0]["rv"]["p"]
        if len(pl) != 1:
            continue
        v = variant(pl[0])
        if v is None:
            continue
        tgt = [b_ for val, b_ in t["targets"] if val == v]
        bb["term"] = {"k": "goto", "target": tgt[0] if tgt else t["otherwise"], "line": t.get("line", 0), "folded_switch": True}


class Inliner:
    def __init__(self, raw_bodies, norm, no_inline):
        self.raw = {r["id"]: r for r in raw_bodies}
        self.norm = norm
        self.by_nid = {}
        for r in raw_bodies:
            self.by_nid.setdefault(norm(r["id"]), []).append(r)
        self.no_inline = set(no_inline)
        self.memo = {}

    def _callee(self, term):
        f = term["fn"]
        if f.get("k") != "def":
            return None, False
        inst = f.get("inst")
        is_closure_call = f.get("trait") in ("std::ops::Fn", "std::ops::FnMut", "std::ops::FnOnce")
        cand = None
        if inst and inst.get("local"):
            rs = self.by_nid.get(self.norm(inst["path"]), [])
            if len(rs) == 1:
                cand = rs[0]
        if cand is None and f.get("local") and not is_closure_call:
            rs = self.by_nid.get(self.norm(f["path"]), [])
            if len(rs) == 1:
                cand = rs[0]
        if cand is None:
            return None, False
        if is_closure_call:
            return (cand, True) if cand["kind"] == "closure" else (None, False)
        if cand["kind"] == "closure":
            return None, False
        if self.norm(cand["id"]) in self.no_inline or self.norm(f.get("path", "")) in self.no_inline:
            return None, False
        nested = cand.get("parent_kind") in ("Closure", "Fn", "AssocFn")
        if cand.get("vis") == "pub" and not nested:
            return None, False
        if cand.get("impl_trait"):
            return None, False
        return cand, False

    # ---- std combinators taking a local closure: Option::map / map_or / is_some_and / and_then / filter /
    # unwrap_or_else / bool::then are rewritten into an explicit test of the receiver plus the closure's body,
    # so that every analysis sees the decision the closure makes (a maintainer's `x.map_or(true, |c| ..)` is the
    # same code as the `match` it replaces).
    COMBINATORS = {
        "std::option::Option::map": ("map", 1, None),
        "std::option::Option::map_or": ("map_or", 2, 1),
        "std::option::Option::is_some_and": ("is_some_and", 1, None),
        "std::option::Option::is_none_or": ("is_none_or", 1, None),
        "std::option::Option::and_then": ("and_then", 1, None),
        "std::option::Option::filter": ("filter", 1, None),
        "std::option::Option::unwrap_or_else": ("unwrap_or_else", 1, None),
        "core::bool::<impl bool>::then": ("then", 1, None),
        "std::bool::<impl bool>::then": ("then", 1, None),
    }

    def _expand_combinator(self, raw, t, bb, blocks, locals_, depth, stack, spliced):
        f = t["fn"]
        if f.get("k") != "def":
            return False
        spec = self.COMBINATORS.get(self.norm(f.get("path") or ""))
        if spec is None or t.get("target") is None:
            return False
        kind, ci, di = spec
        args = t["args"]
        if ci >= len(args) or args[0].get("k") not in ("copy", "move"):
            return False
        cty = args[ci].get("t") or {}
        if cty.get("k") != "closure" or cty.get("def") not in self.raw:
            return False
        callee = self.raw[cty["def"]]
        if callee["id"] in stack or callee["id"] == raw["id"] or len(callee["blocks"]) > MAX_BLOCKS:
            return False
        cin = self.inline(callee, depth - 1, stack + (raw["id"],))
        line = t.get("line", 0)
        dest, target = t["dest"], t["target"]
        recv = args[0]["p"]
        unk = {"s": "?", "k": "unknown"}

        def new_local(ty=None, name=None):
            locals_.append({"ty": ty or unk, "name": name})
            return len(locals_) - 1

        def new_block(stmts, term):
            blocks.append({"cleanup": False, "stmts": stmts, "term": term, "inl": True})
            return len(blocks) - 1

        def assign(lhs, rv):
            return {"k": "assign", "lhs": lhs, "line": line, "rv": rv}

        def use(op):
            return {"k": "use", "op": {kk: vv for kk, vv in op.items() if kk != "t"}}

        def some(op):
            return {"k": "agg", "ak": "adt", "def": "std::option::Option", "variant": "Some", "vidx": 1, "ops": [op]}
        none = {"k": "agg", "ak": "adt", "def": "std::option::Option", "variant": "None", "vidx": 0, "ops": []}
        join = new_block([], {"k": "goto", "target": target, "line": line})

        def splice(arg_ops, ret_place):
            """the closure body with its parameters bound to arg_ops, returning into ret_place, then -> join"""
            offL, offB = len(locals_), len(blocks)
            locals_.extend(cin["locals"])
            pre = [assign([offL + 1], use(args[ci]))]
            for k_, op in enumerate(arg_ops):
                if k_ < cin["argc"] - 1:
                    pre.append(assign([offL + 2 + k_], use(op)))
            for cb in cin["blocks"]:
                blocks.append(_shift_block(cb, offL, offB, ret_place, join, line))
            spliced.append(self.norm(callee["id"]))
            return pre, offB

        if kind == "then":
            # recv is a bool: true -> Some(f()) ; false -> None
            tmp = new_local()
            pre, entry = splice([], [tmp])
            wrap = new_block([assign(list(dest), some({"k": "move", "p": [tmp]}))], {"k": "goto", "target": target, "line": line})
            # the spliced body returns into tmp and goes to join; route join -> wrap for this expansion
            blocks[join]["term"] = {"k": "goto", "target": wrap, "line": line}
            bt = new_block(pre, {"k": "goto", "target": entry, "line": line})
            bf = new_block([assign(list(dest), none)], {"k": "goto", "target": target, "line": line})
            bb["term"] = {"k": "switch", "discr": {"k": "copy", "p": list(recv)}, "targets": [[0, bf]], "otherwise": bt, "line": line,
                          "inlined_call": self.norm(callee["id"])}
            return True
        d = new_local({"s": "isize", "k": "prim"})
        pay = new_local()
        bb["stmts"].append(assign([d], {"k": "discr", "p": list(recv)}))
        take = assign([pay], use({"k": "move", "p": list(recv) + ["@Some", ".0"]}))
        pay_op = {"k": "move", "p": [pay]}
        if kind in ("map", "and_then", "map_or"):
            if kind == "map":
                tmp = new_local()
                pre, entry = splice([pay_op], [tmp])
                wrap = new_block([assign(list(dest), some({"k": "move", "p": [tmp]}))], {"k": "goto", "target": target, "line": line})
                blocks[join]["term"] = {"k": "goto", "target": wrap, "line": line}
            else:
                pre, entry = splice([pay_op], list(dest))
            bs = new_block([take] + pre, {"k": "goto", "target": entry, "line": line})
            if kind == "map_or":
                bn = new_block([assign(list(dest), use(args[di]))], {"k": "goto", "target": target, "line": line})
            else:
                bn = new_block([assign(list(dest), none)], {"k": "goto", "target": target, "line": line})
        elif kind in ("is_some_and", "is_none_or"):
            pre, entry = splice([pay_op], list(dest))
            bs = new_block([take] + pre, {"k": "goto", "target": entry, "line": line})
            bn = new_block([assign(list(dest), {"k": "use", "op": {"k": "const", "s": "true" if kind == "is_none_or" else "false",
                                                                       "int": 1 if kind == "is_none_or" else 0}})],
                           {"k": "goto", "target": target, "line": line})
        elif kind == "filter":
            keep = new_local({"s": "bool", "k": "prim"})
            ref = new_local()
            pre, entry = splice([{"k": "move", "p": [ref]}], [keep])
            yes = new_block([assign(list(dest), some(pay_op))], {"k": "goto", "target": target, "line": line})
            no = new_block([assign(list(dest), none)], {"k": "goto", "target": target, "line": line})
            blocks[join]["term"] = {"k": "switch", "discr": {"k": "copy", "p": [keep]}, "targets": [[0, no]], "otherwise": yes, "line": line}
            bs = new_block([take, assign([ref], {"k": "ref", "mut": False, "p": [pay]})] + pre, {"k": "goto", "target": entry, "line": line})
            bn = new_block([assign(list(dest), none)], {"k": "goto", "target": target, "line": line})
        elif kind == "unwrap_or_else":
            pre, entry = splice([], list(dest))
            bs = new_block([take, assign(list(dest), use(pay_op))], {"k": "goto", "target": target, "line": line})
            bn = new_block(pre, {"k": "goto", "target": entry, "line": line})
        else:
            return False
        bb["term"] = {"k": "switch", "discr": {"k": "copy", "p": [d]}, "targets": [[0, bn]], "otherwise": bs, "line": line,
                      "inlined_call": self.norm(callee["id"])}
        return True

    def inline(self, raw, depth=MAX_DEPTH, stack=()):
        key = raw["id"]
        if not stack and key in self.memo:
            return self.memo[key]
        locals_ = list(raw["locals"])
        blocks = [dict(b, stmts=list(b["stmts"])) for b in raw["blocks"]]
        n0 = len(blocks)
        spliced = []
        for i in range(n0):
            bb = blocks[i]
            if bb["cleanup"]:
                continue
            t = bb["term"]
            if t["k"] != "call" or depth <= 0:
                continue
            if self._expand_combinator(raw, t, bb, blocks, locals_, depth, stack, spliced):
                continue
            callee, is_cl = self._callee(t)
            if callee is None or callee["id"] in stack or callee["id"] == raw["id"]:
                continue
            if len(callee["blocks"]) > MAX_BLOCKS:
                continue
            cin = self.inline(callee, depth - 1, stack + (raw["id"],))
            if len(cin["blocks"]) + len(blocks) > 1500:
                continue
            offL, offB = len(locals_), len(blocks)
            locals_.extend(cin["locals"])
            line = t.get("line", 0)
            args = t["args"]
            binds = []
            if is_cl:
                if len(args) >= 1:
                    binds.append((offL + 1, args[0]))
                if len(args) >= 2 and args[1].get("k") in ("copy", "move"):
                    tp = args[1]["p"]
                    for k in range(cin["argc"] - 1):
                        binds.append((offL + 2 + k, {"k": "move", "p": tp + [".%d" % k]}))
            else:
                for k in range(min(cin["argc"], len(args))):
                    binds.append((offL + 1 + k, args[k]))
            for (l, op) in binds:
                o = {kk: vv for kk, vv in op.items() if kk != "t"}
                bb["stmts"].append({"k": "assign", "lhs": [l], "line": line, "rv": {"k": "use", "op": o}})
            for cb in cin["blocks"]:
                blocks.append(_shift_block(cb, offL, offB, t["dest"], t["target"], line))
            bb["term"] = {"k": "goto", "target": offB, "line": line, "inlined_call": self.norm(callee["id"])}
            spliced.append(self.norm(callee["id"]))
        # second pass: a closure handed to a spliced GENERIC helper (`fn with_slot<R>(&self, f: impl FnOnce(..) -> R)`) is called there
        # through the type parameter; once the helper sits in its caller the closure is known - the local the call goes through was
        # bound (by the parameter binding above) to a closure value of this body
        if spliced and depth > 0:
            def closure_of(local, hops=0):
                if hops > 6:
                    return None
                ty = locals_[local]["ty"] if local < len(locals_) else {}
                if ty.get("k") == "closure" and ty.get("def") in self.raw:
                    return self.raw[ty["def"]]
                srcs = []
                for b_ in blocks:
                    if b_["cleanup"]:
                        continue
                    for s_ in b_["stmts"]:
                        if s_["k"] == "assign" and s_["lhs"] == [local]:
                            srcs.append(s_["rv"])
                if len(srcs) != 1:
                    return None
                rv = srcs[0]
                if rv["k"] == "use" and rv["op"]["k"] in ("copy", "move") and len(rv["op"]["p"]) == 1:
                    return closure_of(rv["op"]["p"][0], hops + 1)
                if rv["k"] == "ref" and len(rv["p"]) == 1:
                    return closure_of(rv["p"][0], hops + 1)
                return None
            i = n0
            while i < len(blocks) and len(blocks) < 1500:
                bb = blocks[i]
                i += 1
                t = bb["term"]
                if bb["cleanup"] or t["k"] != "call":
                    continue
                f = t["fn"]
                if f.get("k") != "def" or f.get("trait") not in ("std::ops::Fn", "std::ops::FnMut", "std::ops::FnOnce"):
                    continue
                if not t["args"] or t["args"][0].get("k") not in ("copy", "move") or len(t["args"][0]["p"]) != 1:
                    continue
                callee = closure_of(t["args"][0]["p"][0])
                if callee is None or callee["id"] in stack or callee["id"] == raw["id"] or len(callee["blocks"]) > MAX_BLOCKS:
                    continue
                cin = self.inline(callee, depth - 1, stack + (raw["id"],))
                if len(cin["blocks"]) + len(blocks) > 1500:
                    continue
                offL, offB = len(locals_), len(blocks)
                locals_.extend(cin["locals"])
                line = t.get("line", 0)
                args = t["args"]
                binds = [(offL + 1, args[0])]
                if len(args) >= 2 and args[1].get("k") in ("copy", "move"):
                    tp = args[1]["p"]
                    for k in range(cin["argc"] - 1):
                        binds.append((offL + 2 + k, {"k": "move", "p": tp + [".%d" % k]}))
                for (l, op) in binds:
                    o = {kk: vv for kk, vv in op.items() if kk != "t"}
                    bb["stmts"].append({"k": "assign", "lhs": [l], "line": line, "rv": {"k": "use", "op": o}})
                for cb in cin["blocks"]:
                    blocks.append(_shift_block(cb, offL, offB, t["dest"], t["target"], line))
                bb["term"] = {"k": "goto", "target": offB, "line": line, "inlined_call": self.norm(callee["id"])}
                spliced.append(self.norm(callee["id"]))
        if spliced:
            _fold_known_discriminants(blocks)
        out = dict(raw)
        out["locals"] = locals_
        out["blocks"] = blocks
        out["inlined"] = spliced + [x for x in raw.get("inlined", [])]
        if not stack:
            self.memo[key] = out
        return out
