"""A small abstract interpreter over MIR for *slot typestate*: the state is the presence bit of a
finite set of Option-valued lock cells of one object (e.g. an Observer's three callback slots
and its teardown slot).  It follows calls into crate-local methods (binding the callee's `self`
to a field path of the tracked object), tracks booleans / enum discriminants of locals, takes
only the feasible edge of a branch whose discriminant is known, and records *effects*
(callable invocations) in order.  The source is never executed; branches on unknown values are
explored both ways.  Anything that touches a tracked cell in a way the interpreter does not
understand raises Unsupported (the calling rule fails closed)."""
from model import *


class Unsupported(Exception):
    pass


OPTION_COMBINATORS = {
    "std::option::Option::map", "std::option::Option::and_then", "std::option::Option::map_or",
    "std::option::Option::map_or_else", "std::option::Option::inspect", "std::option::Option::filter",
    "std::option::Option::is_some_and", "std::option::Option::unwrap_or_else", "std::option::Option::or_else",
}


UNKNOWN = None


class Outcome:
    __slots__ = ("ret", "state", "effects")

    def __init__(self, ret, state, effects):
        self.ret, self.state, self.effects = ret, state, effects

    def key(self):
        return (self.ret, self.state, self.effects)


class SlotInterp:
    def __init__(self, P, cells, opaque_ok=(), bool_cells=()):
        """cells: tuple of field paths (tuples) of the tracked object that are slots.
        A state is a tuple of bools aligned with `cells`."""
        self.P = P
        self.cells = tuple(cells)
        self.budget = 0
        self.opaque_ok = set(opaque_ok)
        # indexes of cells whose tracked bit is the *value* of a bool behind the lock
        self.bool_cells = set(bool_cells)

    # ---- helpers
    def cell_of(self, path):
        """index of the tracked cell that `path` (object-relative) lies in, and the rest."""
        best = None
        for i, c in enumerate(self.cells):
            if path[:len(c)] == c:
                if best is None or len(c) > len(self.cells[best]):
                    best = i
        if best is None:
            return None, path
        return best, path[len(self.cells[best]):]

    def obj_paths(self, body, prov, binding):
        """object-relative paths denoted by a provenance set, given binding: callee param -> prefix
        (tuple) or None when the parameter is not the tracked object."""
        out = []
        for (rk, rd, path) in prov:
            if rk == "param" and rd in binding and binding[rd] is not None:
                out.append(binding[rd] + tuple(path))
        return out

    # ---- main entry
    def run(self, body, state, binding, depth=0):
        """All outcomes of running `body` from `state` with `binding`.  Returns list of Outcome."""
        if depth > 8:
            raise Unsupported("call depth exceeded in %s" % body.nid)
        results = {}
        # worklist of (bb, env(frozen), state, effects)
        start = (0, (), state, ())
        seen = set()
        visits = {}
        work = [start]
        steps = 0
        while work:
            bbi, envt, st, eff = work.pop()
            steps += 1
            if steps > 40000:
                raise Unsupported("step budget exceeded in %s" % body.nid)
            k = (bbi, envt, st, eff)
            if k in seen:
                continue
            seen.add(k)
            # loops: the effect trace grows per iteration; explore each (block, env, state) a
            # bounded number of times (two iterations are enough to see repeat behaviour)
            vk = (bbi, envt, st)
            visits[vk] = visits.get(vk, 0) + 1
            if visits[vk] > 3:
                continue
            env = dict(envt)
            bb = body.blocks[bbi]
            for s in bb["stmts"]:
                if s["k"] == "assign":
                    st = self._assign(body, s, env, st, binding)
                elif s["k"] == "dead":
                    env.pop(s["l"], None)
            t = bb["term"]
            kind = t["k"]
            if kind == "return":
                o = Outcome(env.get(0, UNKNOWN), st, eff)
                results[o.key()] = o
                continue
            if kind in ("goto", "assert", "falseedge"):
                work.append((t["target"], tuple(sorted(env.items())), st, eff))
                continue
            if kind == "drop":
                work.append((t["target"], tuple(sorted(env.items())), st, eff))
                continue
            if kind == "switch":
                v = self._operand_val(body, t["discr"], env, st, binding)
                targets = t["targets"]
                if v is UNKNOWN or not isinstance(v, int):
                    nxt = [b for _, b in targets] + [t["otherwise"]]
                else:
                    nxt = [b for val, b in targets if val == v] or [t["otherwise"]]
                for b in dict.fromkeys(nxt):
                    if not body.blocks[b]["cleanup"]:
                        work.append((b, tuple(sorted(env.items())), st, eff))
                continue
            if kind == "call":
                c = body.call_at(bbi)
                outs = self._call(body, c, env, st, eff, binding, depth)
                for (rv, st2, eff2) in outs:
                    if c.target is None:
                        continue  # diverges (panic)
                    env2 = dict(env)
                    if len(c.dest) == 1:
                        if rv is UNKNOWN:
                            env2.pop(c.dest[0], None)
                        else:
                            env2[c.dest[0]] = rv
                    work.append((c.target, tuple(sorted(env2.items())), st2, eff2))
                continue
            if kind in ("unreachable", "resume"):
                continue
            raise Unsupported("terminator %s in %s" % (kind, body.nid))
        return list(results.values())

    # ---- statements
    def _assign(self, body, s, env, st, binding):
        lhs, rv = s["lhs"], s["rv"]
        k = rv["k"]
        if len(lhs) > 1:
            # store through a projection: is it a store into a tracked cell?
            for p in self.obj_paths(body, body.place_prov(lhs), binding):
                ci, rest = self.cell_of(p)
                if ci is None:
                    continue
                if rest:
                    continue  # write inside the payload, presence unchanged
                val = self._rvalue_val(body, rv, env, st, binding)
                if isinstance(val, tuple) and val[0] == "variant":
                    present = (val[1] == 1)
                    st = st[:ci] + (present,) + st[ci + 1:]
                elif ci in self.bool_cells and isinstance(val, int):
                    st = st[:ci] + (bool(val),) + st[ci + 1:]
                else:
                    raise Unsupported("store of unknown value into slot %s in %s"
                                      % (".".join(self.cells[ci]), body.nid))
            return st
        l = lhs[0]
        val = self._rvalue_val(body, rv, env, st, binding)
        if val is UNKNOWN:
            env.pop(l, None)
        else:
            env[l] = val
        return st

    def _rvalue_val(self, body, rv, env, st, binding):
        k = rv["k"]
        if k == "use":
            return self._operand_val(body, rv["op"], env, st, binding)
        if k == "agg":
            if rv["ak"] == "adt" and "vidx" in rv:
                return ("variant", rv["vidx"])
            return UNKNOWN
        if k == "unop" and rv["op"] == "Not":
            v = self._operand_val(body, rv["a"], env, st, binding)
            if isinstance(v, int):
                return 0 if v else 1
            return UNKNOWN
        if k == "discr":
            p = rv["p"]
            if len(p) == 1:
                v = env.get(p[0], UNKNOWN)
                if isinstance(v, tuple) and v[0] == "variant":
                    return v[1]
            # discriminant of a tracked cell's content?
            for op in self.obj_paths(body, body.place_prov(p), binding):
                ci, rest = self.cell_of(op)
                if ci is not None and not rest:
                    return 1 if st[ci] else 0
            # discriminant of a local that aliases a variant value through references
            pv = body.place_prov(p)
            vals = set()
            for (rk, rd, path) in pv:
                if rk == "agg" and not path:
                    stt = body.blocks[rd[0]]["stmts"][rd[1]]["rv"]
                    if stt.get("ak") == "adt" and "vidx" in stt:
                        vals.add(stt["vidx"])
                    else:
                        vals.add(None)
                else:
                    vals.add(None)
            if len(vals) == 1 and None not in vals:
                return vals.pop()
            return UNKNOWN
        if k == "binop":
            a = self._operand_val(body, rv["a"], env, st, binding)
            b = self._operand_val(body, rv["b"], env, st, binding)
            if isinstance(a, int) and isinstance(b, int):
                if rv["op"] == "Eq":
                    return 1 if a == b else 0
                if rv["op"] == "Ne":
                    return 1 if a != b else 0
                if rv["op"] == "BitAnd":
                    return a & b
                if rv["op"] == "BitOr":
                    return a | b
            return UNKNOWN
        return UNKNOWN

    def _operand_val(self, body, op, env, st, binding):
        if op["k"] == "const":
            if "int" in op:
                return op["int"]
            if op.get("s") == "true":
                return 1
            if op.get("s") == "false":
                return 0
            return UNKNOWN
        if op["k"] in ("copy", "move"):
            p = op["p"]
            if len(p) == 1:
                return env.get(p[0], UNKNOWN)
            if self.bool_cells and "*" in p:
                for opath in self.obj_paths(body, body.place_prov(p), binding):
                    ci, rest = self.cell_of(opath)
                    if ci is not None and not rest and ci in self.bool_cells:
                        return 1 if st[ci] else 0
            return UNKNOWN
        return UNKNOWN

    # ---- calls
    def _call(self, body, c, env, st, eff, binding, depth):
        path = c.path
        args = c.args
        # which object-relative paths do the arguments denote?
        arg_paths = [self.obj_paths(body, body.operand_prov(a), binding) for a in args]
        touches = any(ap for ap in arg_paths)
        # invocation of a type-erased callable = the slot's callback runs
        if c.trait in ("std::ops::Fn", "std::ops::FnMut", "std::ops::FnOnce"):
            self_t = c.targs[0] if c.targs else {}
            if self_t.get("k") != "closure":
                slot = binding.get("__slot__")
                return [(UNKNOWN, st, eff + (("invoke", slot),))]
        if path in ("std::option::Option::is_none", "std::option::Option::is_some"):
            v = self._option_presence(body, args[0], env, st, binding)
            if v is UNKNOWN:
                return [(UNKNOWN, st, eff)]
            if path.endswith("is_none"):
                v = not v
            return [(1 if v else 0, st, eff)]
        if path in ("std::mem::replace", "std::mem::take", "core::mem::replace", "core::mem::take"):
            for op in arg_paths[0] if arg_paths else []:
                ci, rest = self.cell_of(op)
                if ci is not None and not rest:
                    old = st[ci]
                    if path.endswith("take"):
                        newv = False
                    else:
                        nv = self._operand_val(body, args[1], env, st, binding)
                        if ci in self.bool_cells and isinstance(nv, int):
                            newv = bool(nv)
                        elif isinstance(nv, tuple) and nv[0] == "variant":
                            newv = (nv[1] == 1)
                        else:
                            raise Unsupported("mem::replace of tracked slot with unknown value in %s" % body.nid)
                    st2 = st[:ci] + (newv,) + st[ci + 1:]
                    ret = (1 if old else 0) if ci in self.bool_cells else ("variant", 1 if old else 0)
                    return [(ret, st2, eff)]
            return [(UNKNOWN, st, eff)]
        aop = atomic_op(path)
        if aop and arg_paths and arg_paths[0]:
            for op in arg_paths[0]:
                ci, rest = self.cell_of(op)
                if ci is not None and not rest and ci in self.bool_cells:
                    old = st[ci]
                    name = path.split("::")[-1]
                    if aop == "LOAD":
                        return [(1 if old else 0, st, eff)]
                    nv = self._operand_val(body, args[1], env, st, binding) if len(args) > 1 else UNKNOWN
                    if aop == "STORE" and isinstance(nv, int):
                        return [(UNKNOWN, st[:ci] + (bool(nv),) + st[ci + 1:], eff)]
                    if name == "swap" and isinstance(nv, int):
                        return [(1 if old else 0, st[:ci] + (bool(nv),) + st[ci + 1:], eff)]
                    if name == "fetch_or" and isinstance(nv, int):
                        return [(1 if old else 0, st[:ci] + (bool(old or nv),) + st[ci + 1:], eff)]
                    if name == "fetch_and" and isinstance(nv, int):
                        return [(1 if old else 0, st[:ci] + (bool(old and nv),) + st[ci + 1:], eff)]
                    raise Unsupported("atomic %s on tracked flag in %s" % (name, body.nid))
        if path in OPTION_COMBINATORS and args:
            # Option::map / and_then / ... : the closure runs iff the option is Some
            pres = self._option_presence(body, args[0], env, st, binding)
            outs = []
            cl = None
            for a in args[1:]:
                cdef = ty_closure(a.get("t"))
                if cdef and cdef in self.P.bodies:
                    cl = self.P.bodies[cdef]
            branches = [True, False] if pres is UNKNOWN else [bool(pres)]
            for some in branches:
                if some and cl is not None:
                    nb = {"__slot__": binding.get("__slot__")}
                    for o in self.run(cl, st, nb, depth + 1):
                        rv = ("variant", 1) if path.endswith("::map") else UNKNOWN
                        outs.append((rv, o.state, eff + o.effects))
                elif some:
                    outs.append((UNKNOWN, st, eff))
                else:
                    rv = ("variant", 0) if path.endswith(("::map", "::and_then", "::filter")) else UNKNOWN
                    outs.append((rv, st, eff))
            return outs
        if path in TRANSPARENT or path in LOCK_ACQ:
            # value flows through (variant tags survive clone / unwrap of a *local*)
            v = UNKNOWN
            if path == "std::option::Option::take":
                for op in arg_paths[0]:
                    ci, rest = self.cell_of(op)
                    if ci is not None and not rest:
                        # take(): leaves None behind; the result carries the old presence
                        old = st[ci]
                        st = st[:ci] + (False,) + st[ci + 1:]
                        return [(("variant", 1 if old else 0), st, eff)]
            if path == "std::clone::Clone::clone" and args and args[0]["k"] in ("copy", "move"):
                # cloning a reference to a tracked Option cell's content: carries its presence
                for op in arg_paths[0]:
                    ci, rest = self.cell_of(op)
                    if ci is not None and not rest and "Option" in (c.dest_t or {}).get("s", ""):
                        return [(("variant", 1 if st[ci] else 0), st, eff)]
            if args and args[0]["k"] in ("copy", "move") and len(args[0]["p"]) == 1:
                v = env.get(args[0]["p"][0], UNKNOWN)
                if path.startswith("std::result::Result::unwrap") or path.startswith("std::option::Option::unwrap"):
                    v = UNKNOWN
            return [(v, st, eff)]
        cb = None
        if c.inst and c.inst_local:
            bs = self.P.by_nid.get(c.inst, [])
            cb = bs[0] if len(bs) == 1 else None
        if cb is None and c.local and not c.indirect:
            bs = self.P.by_nid.get(c.path, [])
            cb = bs[0] if len(bs) == 1 else None
        if cb is not None and not touches and binding.get("__slot__") is not None and depth < 6:
            # a helper working on a value detached from the tracked object (e.g. the callable taken
            # out of a FunctionWrapper slot): follow it so that an invocation inside is seen
            outs = self.run(cb, st, {"__slot__": binding.get("__slot__")}, depth + 1)
            return [(o.ret, o.state, eff + o.effects) for o in outs]
        if cb is not None and touches:
            # bind callee params to object paths
            nb = {}
            for i, ap in enumerate(arg_paths):
                if len(ap) == 1:
                    nb[i + 1] = ap[0]
                elif len(ap) > 1:
                    raise Unsupported("ambiguous receiver for %s in %s" % (path, body.nid))
            # the slot a FunctionWrapper method acts on = its receiver path
            if 1 in nb:
                nb["__slot__"] = nb[1]
            outs = self.run(cb, st, nb, depth + 1)
            return [(o.ret, o.state, eff + o.effects) for o in outs]
        if touches:
            # a call we cannot see into receives (a reference into) the tracked object
            for ap in arg_paths:
                for op in ap:
                    ci, rest = self.cell_of(op)
                    if ci is not None:
                        if path in self.opaque_ok or path.startswith("std::collections::") :
                            continue
                        raise Unsupported("tracked slot %s passed to opaque call %s in %s"
                                          % (".".join(self.cells[ci]), path, body.nid))
        return [(UNKNOWN, st, eff)]

    def _option_presence(self, body, op, env, st, binding):
        if op["k"] in ("copy", "move") and len(op["p"]) == 1:
            v = env.get(op["p"][0], UNKNOWN)
            if isinstance(v, tuple) and v[0] == "variant":
                return v[1] == 1
        for p in self.obj_paths(body, body.operand_prov(op), binding):
            ci, rest = self.cell_of(p)
            if ci is not None and not rest:
                return st[ci]
        return UNKNOWN
