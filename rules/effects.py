"""Effect layer: what each call does in the vocabulary of this code base (slot API table),
handler roles, inline call resolution, may/must path queries and call-graph summaries."""
from collections import defaultdict, deque
from model import *

ISCHED = "schedulers::scheduler::IScheduler"
AFQ = "schedulers::async_function_queue::AsyncFunctionQueue"

# --- slot-API table (DESIGN 5.1): callee -> atom
ATOMS = {
    SCTL + "::sink_next": "sink_next",
    SCTL + "::sink_error": "sink_error",
    SCTL + "::sink_complete": "sink_complete",
    SCTL + "::sink_complete_force": "sink_complete_force",
    SCTL + "::upstream_abort_observe": "abort",
    SCTL + "::finalize": "finalize",
    SCTL + "::new_observer": "new_observer",
    SCTL + "::set_on_finalize": "set_on_finalize",
    SCTL + "::is_subscribed": "is_subscribed",
    SCTL + "::new": "sctl_new",
    OBSERVABLE + "::create": "create",
    OBSERVABLE + "::inner_subscribe": "subscribe",
    OBSERVABLE + "::subscribe": "subscribe",
    OBSERVER + "::next": "obs_next",
    OBSERVER + "::error": "obs_error",
    OBSERVER + "::complete": "obs_complete",
    OBSERVER + "::unsubscribe": "obs_unsubscribe",
    OBSERVER + "::is_subscribed": "is_subscribed",
    OBSERVER + "::new": "observer_new",
    OBSERVER + "::set_on_unsubscribe": "set_on_unsubscribe",
    SUBSCRIPTION + "::new": "subscription_new",
    SUBSCRIPTION + "::unsubscribe": "sub_unsubscribe",
    SUBSCRIPTION + "::is_subscribed": "sub_is_subscribed",
    FW + "::new": "fw_new",
    FW + "::call": "fw_call",
    FW + "::call_if_available": "fw_call",
    FW + "::call_and_clear_if_available": "fw_call",
    FW + "::clear": "fw_clear",
    FW + "::exists": "fw_exists",
    FW + "::empty": "fw_exists",
    ISCHED + "::post": "post",
    ISCHED + "::abort": "sched_abort",
    AFQ + "::post": "post",
    AFQ + "::stop": "queue_stop",
    "std::thread::spawn": "spawn",
    "utils::ready_set_go::ready_set_go": "ready_set_go",
}

# closure-taking callees: callee -> {arg index: role}
ROLE_API = {
    SCTL + "::new_observer": {1: "N", 2: "E", 3: "C"},
    OBSERVER + "::new": {0: "USER_N", 1: "USER_E", 2: "USER_C"},
    OBSERVABLE + "::subscribe": {1: "USER_N", 2: "USER_E", 3: "USER_C"},
    OBSERVABLE + "::create": {0: "SOURCE"},
    SCTL + "::set_on_finalize": {1: "ON_FINALIZE"},
    OBSERVER + "::set_on_unsubscribe": {1: "TEARDOWN"},
    ISCHED + "::post": {1: "TASK"},
    AFQ + "::post": {1: "TASK"},
    "std::thread::spawn": {0: "THREAD"},
    SUBSCRIPTION + "::new": {0: "UNSUB", 1: "ISSUB"},
    FW + "::new": {0: "STORED"},
    "utils::ready_set_go::ready_set_go": {0: "ACTION"},
    "std::iter::Iterator::for_each": {1: "INLINE"},
    "std::iter::Iterator::map": {1: "INLINE"},
    "std::iter::Iterator::filter": {1: "INLINE"},
    "std::iter::Iterator::all": {1: "INLINE"},
    "std::sync::Condvar::wait_while": {2: "INLINE"},
    "std::option::Option::map": {1: "INLINE"},
    "std::result::Result::map_err": {1: "INLINE"},
}
for _s in SUBJECTS + ("operators::publish::Publish",):
    ROLE_API[_s + "::set_on_subscribe"] = {1: "COUNT_UP"}
    ROLE_API[_s + "::set_on_unsubscribe"] = {1: "COUNT_DOWN"}

SUBJECT_EMIT = {}
for _s in SUBJECTS:
    SUBJECT_EMIT[_s + "::next"] = "subject_next"
    SUBJECT_EMIT[_s + "::error"] = "subject_error"
    SUBJECT_EMIT[_s + "::complete"] = "subject_complete"
    SUBJECT_EMIT[_s + "::observable"] = "subject_observable"


def api_paths():
    """Callee paths the rules are written in: never inlined."""
    return set(ATOMS) | set(SUBJECT_EMIT) | set(ROLE_API)


def load_program(facts):
    import fieldroles
    return Program(fieldroles.canonicalise(facts), no_inline=api_paths())


def atom(call):
    a = ATOMS.get(call.path)
    if a:
        return a
    return SUBJECT_EMIT.get(call.path)


class Effects:
    def __init__(self, P):
        self.P = P
        self.roles = defaultdict(list)      # closure id -> [(role, Call, argidx)]
        self.sites = defaultdict(list)      # atom -> [Call]
        self.unclassified = []              # crate-local closure-taking callee not in ROLE_API
        self._index()

    def _index(self):
        P = self.P
        for b in sorted(P.bodies.values(), key=lambda x: x.nid):
            if b.id in P.absorbed:
                continue
            for c in b.calls:
                a = atom(c)
                if a:
                    self.sites[a].append(c)
                table = ROLE_API.get(c.path)
                for i, arg in enumerate(c.args):
                    cl = ty_closure(arg.get("t"))
                    if cl is None:
                        continue
                    if c.trait in ("std::ops::Fn", "std::ops::FnMut", "std::ops::FnOnce") and i == 0:
                        continue  # calling the closure, not passing it
                    if c.path in TRANSPARENT:
                        continue
                    if table and i in table:
                        self.roles[cl].append((table[i], c, i))
                    elif c.local or not (c.path.startswith("std::") or c.path.startswith("core::")):
                        # a crate-local function receives a closure: inline callee
                        self.roles[cl].append(("ARG:" + c.path, c, i))
                        if c.local and c.path not in ROLE_API:
                            self.unclassified.append((c, i, cl))
                    else:
                        self.roles[cl].append(("STD:" + c.path, c, i))

    def role_of(self, closure_id):
        return [r for (r, _, _) in self.roles.get(closure_id, [])]

    # --- handler triples
    def triples(self):
        """[(Call new_observer, {role: Body or None})]"""
        out = []
        seen = set()
        for c in self.sites["new_observer"]:
            hs = {}
            for i, r in ((1, "N"), (2, "E"), (3, "C")):
                cl = c.arg_closure(i)
                hs[r] = self.P.bodies.get(cl) if cl else None
            key = tuple(h.id if h is not None else None for h in hs.values())
            if key in seen and all(k is not None for k in key):
                continue     # the same registration seen again through an inlined copy of its helper
            seen.add(key)
            out.append((c, hs))
        return out

    # --- inline resolution: the crate-local body a call runs synchronously, if known
    def callee_body(self, call):
        P = self.P
        if call.inst and call.inst_local:
            bs = P.by_nid.get(call.inst, [])
            if len(bs) == 1:
                return bs[0]
        if call.local and not call.indirect:
            bs = P.by_nid.get(call.path, [])
            if len(bs) == 1:
                return bs[0]
        return None

    def inline_targets(self, call):
        """Bodies executed synchronously *inside* this call: the callee itself when it is a
        crate-local body, plus closures passed as INLINE/ARG arguments."""
        out = []
        cb = self.callee_body(call)
        if cb is not None:
            out.append(cb)
        table = ROLE_API.get(call.path, {})
        for i, arg in enumerate(call.args):
            cl = ty_closure(arg.get("t"))
            if cl is None or cl not in self.P.bodies:
                continue
            if call.trait in ("std::ops::Fn", "std::ops::FnMut", "std::ops::FnOnce") and i == 0:
                continue
            r = table.get(i)
            if r == "INLINE" or (r is None and cb is None and call.path not in TRANSPARENT
                                 and not call.path.startswith("std::clone")):
                out.append(self.P.bodies[cl])
        return out

    # --- may-summary: atoms possibly performed by running body b (synchronously)
    def may(self, b, _memo=None):
        if not hasattr(self, "_may"):
            self._may = {}
        if b.id in self._may:
            return self._may[b.id]
        # iterative fixpoint over the inline call graph
        graph = {}
        direct = {}
        st = [b]
        while st:
            x = st.pop()
            if x.id in graph:
                continue
            d = set()
            g = []
            for c in x.calls:
                a = atom(c)
                if a:
                    d.add(a)
                for t in self.inline_targets(c):
                    if atom(c) in ("create", "new_observer", "post", "spawn", "set_on_finalize",
                                   "set_on_unsubscribe", "fw_new", "observer_new", "subscription_new"):
                        continue  # closure is stored, not run, by these
                    g.append(t)
                    st.append(t)
            graph[x.id] = g
            direct[x.id] = d
        res = {k: set(v) for k, v in direct.items()}
        changed = True
        while changed:
            changed = False
            for k, g in graph.items():
                for t in g:
                    add = res[t.id] - res[k]
                    if add:
                        res[k] |= add
                        changed = True
        for k, v in res.items():
            self._may.setdefault(k, frozenset(v))
        return self._may[b.id]

    # --- path queries on one body
    def blocks_where(self, b, pred):
        """Blocks whose terminator is a call satisfying pred(call)."""
        return [c.bb for c in b.calls if pred(c)]

    @staticmethod
    def path_avoiding(b, targets, avoid, start=0):
        """A block path from `start` to any block in `targets` not passing through a block in
        `avoid` (the start block itself may be in avoid only if it is not the start); None if
        none exists.  A target block that is itself in avoid is not reached."""
        targets = set(targets)
        avoid = set(avoid)
        if start in avoid:
            return None
        prev = {start: None}
        dq = deque([start])
        while dq:
            a = dq.popleft()
            if a in targets:
                path = []
                while a is not None:
                    path.append(a)
                    a = prev[a]
                return path[::-1]
            for s in b.succ.get(a, []):
                if s in prev or s in avoid:
                    continue
                prev[s] = a
                dq.append(s)
        return None

    def describe_path(self, b, path):
        out = []
        for bb in path:
            c = b.call_at(bb)
            if c is not None and (atom(c) or c.local):
                out.append("bb%d: %s (line %d)" % (bb, c.path, c.line))
            t = b.blocks[bb]["term"]
            if t["k"] == "switch":
                out.append("bb%d: branch (line %d)" % (bb, t["line"]))
            if t["k"] == "return":
                out.append("bb%d: return" % bb)
        return out
