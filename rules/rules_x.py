"""Round-4 rules (found missing by seeded changes):

X-blocking-acq   every lock acquisition on shared state either blocks or is retried: a
                 try_read/try_write/try_lock whose failure edge reaches a return of the body while
                 the success edge performs an effect skips a mandatory step under contention.
K-hot-state      the per-subscribe closure of a HOT constructor (`fn observable(&self)`) captures
                 mutable cells only from the fields of `self`: a cell allocated in the constructor
                 itself is per-Observable-value state, shared by every subscription made through
                 that value but not by the subject.
CLONE-SHARES     `Clone` of every handle struct is field-wise: each field of the copy derives from
                 the same field of `self` (Arc::clone), never from a fresh allocation.
"""
from core import RuleResult
from effects import *
from rules_k import classify_leaf, _fn_sig

TRY_ACQ = {p for p in LOCK_ACQ if p.split("::")[-1].startswith("try_")}


def _effectful_blocks(b, E):
    """blocks that perform something other than bookkeeping: a slot-API atom, a crate-local call, a
    container mutation, an atomic RMW/STORE, or a store through a dereference"""
    out = set()
    for c in b.calls:
        if atom(c) or c.local or atomic_op(c.path) in ("RMW", "STORE"):
            out.add(c.bb)
        elif c.path.startswith("std::collections::") and c.path.split("::")[-1] in (
                "insert", "remove", "clear", "push", "push_back", "push_front", "pop", "pop_front", "pop_back",
                "drain", "retain", "extend", "truncate", "append"):
            out.add(c.bb)
        elif c.path.startswith("std::vec::Vec::") and c.path.split("::")[-1] in (
                "push", "pop", "clear", "drain", "retain", "extend", "truncate", "append", "insert", "remove"):
            out.add(c.bb)
        elif c.trait in ("std::ops::Fn", "std::ops::FnMut", "std::ops::FnOnce"):
            out.add(c.bb)
    for i in b.reach:
        for s in b.blocks[i]["stmts"]:
            if s["k"] == "assign" and len(s["lhs"]) > 1 and "*" in s["lhs"]:
                out.add(i)
    return out


def _result_branches(b, call):
    """switches on the discriminant of the Result returned by `call`: [(switch bb, ok target, err target)]"""
    out = []
    # locals holding the Result itself (the call's destination and plain moves/copies of it)
    res = {call.raw["dest"][0]} if len(call.raw["dest"]) == 1 else set()
    changed = True
    while changed:
        changed = False
        for i in b.reach:
            for s in b.blocks[i]["stmts"]:
                if s["k"] == "assign" and len(s["lhs"]) == 1 and s["lhs"][0] not in res and s["rv"]["k"] == "use" \
                        and s["rv"]["op"]["k"] in ("copy", "move") and len(s["rv"]["op"]["p"]) == 1 \
                        and s["rv"]["op"]["p"][0] in res:
                    res.add(s["lhs"][0])
                    changed = True
    for tb in sorted(b.reach):
        t = b.blocks[tb]["term"]
        if t["k"] != "switch" or t["discr"]["k"] not in ("copy", "move"):
            continue
        hit = False
        for (rk, rd, path) in b.operand_prov(t["discr"]):
            if rk != "discr":
                continue
            st = b.blocks[rd[0]]["stmts"][rd[1]]
            pl = st["rv"]["p"]
            if pl[0] in res and not [e for e in pl[1:] if e != "*"]:
                hit = True
        if not hit:
            continue
        ok = [bb for v, bb in t["targets"] if v == 0]          # Result::Ok has discriminant 0
        err = [bb for v, bb in t["targets"] if v == 1] or [t["otherwise"]]
        if not ok:
            ok = [t["otherwise"]]
        out.append((tb, ok[0], err[0]))
    return out


def x_blocking_acq(P, E, H, scope=None):
    r = RuleResult("X-blocking-acq", "a lock acquisition on shared state blocks or is retried: the failure edge of a "
                                     "try-acquisition never skips the step its success edge performs")
    n = 0
    for b in sorted(P.bodies.values(), key=lambda x: x.nid):
        if b.id in P.absorbed:
            continue
        tr = H.type_root(b)
        if scope is not None and not scope(tr):
            continue
        acqs, _, _ = b.guards()
        for bb, a in sorted(acqs.items()):
            n += 1
            c = a["call"]
            if c.path not in TRY_ACQ:
                r.instance((H.stable_name(b), "blocking acquisition"), True, None)
                continue
            key = (H.stable_name(b), "try-acquisition")
            r.instance(key, True, "%s at line %d" % (c.path, c.line))
            eff = _effectful_blocks(b, E)
            brs = _result_branches(b, c)
            if not brs:
                # result not inspected here (unwrap -> panic under contention, or handed elsewhere)
                r.violate(key + ("failure not handled",),
                          "%s: the result of the try-acquisition is not branched on in this body: under contention "
                          "the step is lost (unwrap panics; `.ok()`/`if let` elsewhere skips)" % c.path, body=b, line=c.line)
                continue
            for (sw, ok_t, err_t) in brs:
                ok_only = b.reachable_from(ok_t) - b.reachable_from(err_t)
                did = sorted(ok_only & eff)
                retried = bb in b.reachable_from(err_t)
                to_ret = Effects.path_avoiding(b, b.returns, [ok_t], start=err_t) if err_t != ok_t else None
                if did and to_ret is not None and not retried:
                    what = b.call_at(did[0])
                    r.violate(key + ("failure edge skips the step",),
                              "when %s fails (another thread holds the lock) the body returns without %s, which the "
                              "success edge performs, and nothing retries it" %
                              (c.path.split("::")[-1], what.path if what is not None else "the store at bb%d" % did[0]),
                              body=b, line=c.line)
    r.instance(("acquisitions in scope",), n > 0, "%d lock acquisitions examined" % n)
    if n == 0:
        r.error("X-blocking-acq: no lock acquisition found in scope")
    return r


# --------------------------------------------------------------------------- K-hot-state

def hot_constructor(P, sb):
    root = P.bodies.get(sb.root)
    if root is None or root.kind != "assoc":
        return None
    ret, params = _fn_sig(root)
    if norm(ty_adt(ret) or "") != OBSERVABLE or not params:
        return None
    if params[0].get("k") != "ref":
        return None
    if any(norm(ty_adt(p) or "") == OBSERVABLE for p in params):
        return None
    if root.name == "execute":
        return None
    return root


def k_hot_state(P, E, H, scope=None):
    r = RuleResult("K-hot-state", "the per-subscribe closure of a hot constructor (fn(&self) -> Observable) captures "
                                  "mutable cells only out of self's fields")
    n = 0
    for c in E.sites["create"]:
        cl = c.arg_closure(0)
        sb = P.bodies.get(cl) if cl else None
        if sb is None:
            continue
        root = hot_constructor(P, sb)
        if root is None:
            continue
        tr = H.type_root(root)
        if scope is not None and not scope(tr):
            continue
        n += 1
        r.instance((tr, "SOURCE"), True, "captures: %s" % ", ".join("%s: %s" % (u.get("name"), u["ty"]["s"]) for u in sb.upvars))
        for u in sb.upvars:
            kinds = {classify_leaf(l)[0] for l in u["leaves"]}
            if not (kinds & {"cell", "handle", "unknown"}):
                continue
            parent, provs = P.upvar_origin(sb, u["idx"])
            if parent is None:
                r.error("K-hot-state: origin of capture %s in %s unresolved" % (u.get("name"), sb.nid))
                continue
            fresh = [t for t in provs if t[0] in ("ret", "agg", "val")]
            for t in fresh:
                # a value returned by a call on self (self.subject.observable(), ..) is still self's state
                if t[0] == "ret":
                    call = parent.call_at(t[1])
                    if call is not None and call.args and all(
                            k in ("param", "upvar") for (k, _, _) in parent.operand_prov(call.args[0])) and not (
                            call.path.endswith("::new") or call.path.endswith("::default")):
                        continue
                role = None
                for l in u["leaves"]:
                    if classify_leaf(l)[0] in ("cell", "handle", "unknown"):
                        role = classify_leaf(l)[1]
                r.violate((tr, "per-Observable cell captured", norm(str(role))[:60]),
                          "the per-subscribe closure of %s captures `%s: %s`, allocated in the constructor itself (%s), "
                          "not a field of self: every subscription made through one Observable value shares it while "
                          "the subject does not" % (tr, u.get("name"), u["ty"]["s"], parent.term_name(t)), body=sb)
                break
    if n < 3:
        r.error("K-hot-state: only %d hot constructors found (floor 3)" % n)
    return r


# --------------------------------------------------------------------------- CLONE-SHARES

def clone_shares(P, E, scope=None, floor=1):
    r = RuleResult("CLONE-SHARES", "Clone of a handle struct is field-wise: every field of the copy is a clone of the "
                                   "same field of self")
    adts = {norm(a["path"]): a for a in P.facts["adts"]}
    n = 0
    for b in sorted(P.bodies.values(), key=lambda x: x.nid):
        if b.raw.get("impl_trait") != "std::clone::Clone" or b.name != "clone" or b.kind != "assoc":
            continue
        ty = norm(ty_adt(b.impl_self) or "")
        if not ty or (scope is not None and not scope(ty)):
            continue
        a = adts.get(ty)
        if a is None or a.get("kind") not in (None, "struct", "Struct") or len(a["variants"]) != 1:
            continue
        fields = a["variants"][0]["fields"]
        if not fields:
            continue
        n += 1
        # the returned aggregate(s)
        aggs = [t for t in b.place_prov([0]) if t[0] == "agg"]
        other = [t for t in b.place_prov([0]) if t[0] != "agg"]
        r.instance((ty, "clone"), True, "%d fields, %d aggregate(s)" % (len(fields), len(aggs)))
        if other and not aggs:
            # `*self` copy (Copy types) or delegation: whole-value provenance must be self
            if not all(t[0] == "param" and t[1] == 1 for t in other):
                r.violate((ty, "clone not derived from self"), "Clone::clone of %s returns a value that does not derive "
                          "from self" % ty, body=b)
            continue
        for t in aggs:
            st = b.blocks[t[1][0]]["stmts"][t[1][1]]
            rv = st["rv"]
            if norm(rv.get("def") or "") != ty:
                continue
            for i, op in enumerate(rv["ops"]):
                if i >= len(fields):
                    break
                fname = fields[i]["name"]
                if norm(ty_adt(fields[i]["ty"]) or "") == "std::marker::PhantomData":
                    continue
                prov = b.operand_prov(op)
                if all(k == "const" for (k, _, _) in prov):
                    continue
                canon = b._proj_path([".%d:%s@%s" % (i, fname, a["path"])])
                ok = all(k == "param" and d == 1 and path[:1] == canon[:1] for (k, d, path) in prov)
                if not ok:
                    r.violate((ty, "clone does not share field", canon[0] if canon else fname),
                              "Clone::clone of %s builds field `%s` from %s instead of cloning self.%s: the copy does not "
                              "share that state with the original" %
                              (ty, fname, sorted(b.term_name(x) for x in prov), fname), body=b, line=st.get("line"))
    if n < floor:
        r.error("CLONE-SHARES: only %d Clone impls in scope (floor %d)" % (n, floor))
    return r


# --------------------------------------------------------------------------- OBS-fresh

def obs_fresh(P, E, H, scope=None):
    """An Observer is single-use: once it has seen a terminal or was unsubscribed its slots are empty
    for good (and clones share the slots).  So the observer handed to `inner_subscribe` must be made
    by the activation that subscribes it (new_observer / Observer::new there) or be the subscriber
    that activation was given - never one kept in a struct field or allocated by an enclosing
    constructor, which a second connect()/subscribe() would reuse dead."""
    r = RuleResult("OBS-fresh", "the observer passed to inner_subscribe is created by the subscribing activation (or is the subscriber "
                                "handed to it), never a stored one")
    n = 0
    for c in E.sites["subscribe"]:
        if not c.path.endswith("::inner_subscribe") or len(c.args) < 2:
            continue
        b = c.body
        tr = H.type_root(b)
        if scope is not None and not scope(tr):
            continue
        n += 1
        bad = None
        for t in b.operand_prov(c.args[1]):
            for g in P.global_cell(b, t, through_helpers=True):
                gb = P.bodies[g[0]]
                if g[1] == "param":
                    is_self = gb.kind == "assoc" and g[2] == 1 and gb.locals[1].get("name") == "self"
                    if is_self and g[3]:
                        bad = "the field `%s` of self" % ".".join(g[3])
                elif g[1] == "ret":
                    # allocated in an enclosing constructor body (not a closure): shared by every activation
                    if gb.id != b.id and gb.kind != "closure" and gb.id not in P.absorbed and b.root == gb.id:
                        call = gb.call_at(g[2])
                        if call is not None and (atom(call) in ("observer_new", "new_observer") or norm(ty_adt(call.dest_t or {}) or "") == OBSERVER):
                            bad = "an observer built once in %s" % gb.nid
        r.instance((H.stable_name(b), "inner_subscribe"), True, None)
        if bad:
            r.violate((tr, "stored observer subscribed"),
                      "%s subscribes %s: an Observer is dead after its first terminal / unsubscribe (clones share the slots), so "
                      "every later subscription made with it delivers nothing" % (H.stable_name(b), bad), body=b, line=c.line)
    if n < 10:
        r.error("OBS-fresh: only %d inner_subscribe sites (floor 10)" % n)
    return r


# --------------------------------------------------------------------------- SUB-inputs

def _mentions_observable(t, depth=0):
    if not isinstance(t, dict) or depth > 8:
        return False
    if t.get("k") == "adt" and norm(t.get("path") or "") == OBSERVABLE:
        return True
    return any(_mentions_observable(x, depth + 1) for x in (t.get("args") or [])) or _mentions_observable(t.get("inner"), depth + 1) \
        or any(_mentions_observable(x, depth + 1) for x in (t.get("elems") or []))


def sub_inputs(P, E, H, scope=None):
    """Every Observable an operator is given (the `source` parameter of execute, Observable-valued fields of the
    operator struct: trigger, target, the other inputs of a combinator) is subscribed by the per-subscribe code: some
    subscribe call's receiver - directly, or through the chain of calls that produced it (take_op.execute(source).last())
    - derives from that input."""
    r = RuleResult("SUB-inputs", "an operator subscribes every Observable input it was given")
    n = 0
    for c in E.sites["create"]:
        cl = c.arg_closure(0)
        sb = P.bodies.get(cl) if cl else None
        if sb is None:
            continue
        root = P.bodies.get(sb.root)
        if root is None or root.kind != "assoc" or root.name != "execute":
            continue
        tr = H.type_root(root)
        if scope is not None and not scope(tr):
            continue
        inputs = []      # (description, predicate on a global cell)
        for i in range(2, root.argc + 1):
            if _mentions_observable(root.locals[i]["ty"]):
                inputs.append(("parameter `%s`" % (root.locals[i].get("name") or i), (root.id, "param", i, None)))
        a = P.adts.get(tr)
        if a is not None and len(a["variants"]) == 1:
            ren = P.facts.get("_field_renames_q") or {}
            for f in a["variants"][0]["fields"]:
                if _mentions_observable(f["ty"]) and not norm(ty_adt(f["ty"]) or "").startswith("operators::"):
                    inputs.append(("field `%s`" % f["name"], (root.id, "param", 1, ren.get((tr, f["name"]), f["name"]))))
        if not inputs:
            continue
        # the per-subscribe closure, its closures, and local fns of the operator (possibly mutually recursive, hence not
        # fully spliced) with their closures
        scope_bodies = [sb] + P.descendants(sb)
        for b in P.bodies.values():
            if b not in scope_bodies and b.id != root.id and H.type_root(b) == tr and not b.impl_trait and b.name not in ("new",):
                pk = b.raw.get("parent_kind")
                if b.kind == "closure" or pk in ("Closure", "Fn", "AssocFn"):
                    scope_bodies.append(b)
        subs = [(b, k) for b in scope_bodies for k in b.calls if atom(k) == "subscribe"]
        n += 1

        def reaches(b, prov, want, depth=0, seen=None):
            seen = seen if seen is not None else set()
            for t in prov:
                key = (b.id, t)
                if key in seen or depth > 5:
                    continue
                seen.add(key)
                for g in P.global_cell(b, t, through_helpers=True):
                    if g[0] == want[0] and g[1] == want[1] and g[2] == want[2] and (want[3] is None or (g[3] and g[3][0] == want[3])):
                        return True
                    if g[1] == "param" and P.bodies[g[0]].kind == "closure" and g[2] >= 2:
                        # the parameter of a closure handed to an iterator adapter / consumer: an element of the receiver
                        for (role, k2, idx) in E.roles.get(g[0], []):
                            if (role == "INLINE" or role.startswith("STD:")) and k2.args:
                                if reaches(k2.body, k2.body.operand_prov(k2.args[0]), want, depth + 1, seen):
                                    return True
                    if g[1] == "ret":
                        gb = P.bodies[g[0]]
                        k = gb.call_at(g[2])
                        if k is not None:
                            for a_ in k.args:
                                if reaches(gb, gb.operand_prov(a_), want, depth + 1, seen):
                                    return True
                            # closures handed to the call (flat_map-style factories, iterator adapters) may use the input
                            for t2 in E.inline_targets(k):
                                for u in t2.upvars:
                                    par, pv = P.upvar_origin(t2, u["idx"])
                                    if par is not None and reaches(par, pv, want, depth + 1, seen):
                                        return True
            return False
        for (desc, want) in inputs:
            ok = any(reaches(b, b.operand_prov(k.args[0]), want) for (b, k) in subs if k.args)
            r.instance((tr, desc), True, "%d subscribe call(s) in the per-subscribe code" % len(subs))
            if not ok:
                r.violate((tr, "input never subscribed", desc),
                          "%s is given the Observable %s but no subscribe call in its per-subscribe code has a receiver that derives from it: "
                          "that input is never observed" % (tr.split("::")[-1], desc), body=sb)
    if n < 30:
        r.error("SUB-inputs: only %d operators with Observable inputs found (floor 30)" % n)
    return r


# --------------------------------------------------------------------------- INIT: the state machines start in their initial state
INIT_TABLE = [
    # (struct, canonical field, expected, what goes wrong otherwise)
    ("observer::Observer", "terminated", ("flag", False),
     "no terminal has been claimed when an observer is created: started as `true`, begin_terminal() refuses the first terminal as well and no "
     "subscriber ever receives error or complete"),
    ("observer::Observer", "fn_on_unsubscribe", ("optcell", False), "a fresh observer has no teardown hook"),
    ("internals::stream_controller::StreamController", "on_finalize", ("optcell", False), "a fresh controller has no finalize hook"),
    ("operators::to_vec::ToVec", "done", ("flag", False),
     "the source has not terminated when the future is created: started as `true`, the first poll resolves with an empty vector before the source "
     "has emitted anything"),
    ("operators::to_vec::ToVec", "err", ("optcell", False), "no error has been recorded when the future is created"),
    ("operators::to_vec::ToVec", "waker", ("optcell", False), "no task is registered when the future is created"),
    ("schedulers::async_function_queue::AsyncFunctionQueueData", "abort", ("flag", False),
     "a new queue is not aborted: started as `true`, the worker leaves its loop at once and no posted task ever runs"),
    ("subjects::replay_subject::ReplaySubject", "was_completed", ("flag", False),
     "a new ReplaySubject has not completed: started as `true`, every subscriber is completed on arrival and sees no live item"),
    ("subjects::replay_subject::ReplaySubject", "was_error", ("optcell", False), "a new ReplaySubject has not failed"),
    ("operators::ref_count::RefCount", "subscription", ("optcell", False), "ref_count() holds no source subscription before its first subscriber"),
    ("operators::replay::Replay", "subscription", ("optcell", False), "replay() holds no source subscription before its first subscriber"),
]


def init_rule(P, E, prefixes=None):
    """The cells the other rules reason about (terminal flag, done flag, abort flag, recorded terminal, stored handles) are
    created in the initial state of their state machine: the constant the constructor puts into the cell."""
    from rules_count import field_init
    r = RuleResult("INIT", "flags and option cells of the library's state machines are constructed in their initial state")
    n = 0
    for (adt, field, want, why) in INIT_TABLE:
        if prefixes and not adt.startswith(prefixes):
            continue
        if adt not in P.adts:
            r.error("INIT: anchor missing: struct %s" % adt)
            continue
        n += 1
        got = field_init(P, E, adt, field)
        if got is None or got[0] not in ("flag", "optcell", "int"):
            r.instance((adt, field, "initial value"), False, "not decided (constructor builds %s)" % (got,))
            continue
        r.instance((adt, field, "initial value"), True, "constructed as %s" % (got,))
        if got[0] != want[0] or got[1] != want[1]:
            r.violate((adt, field, "wrong initial value"),
                      "%s.%s is constructed as %s, expected %s: %s" % (adt.split("::")[-1], field,
                      {("flag", True): "true", ("flag", False): "false", ("optcell", True): "Some(..)", ("optcell", False): "None"}.get((got[0], got[1]), got),
                      {("flag", True): "true", ("flag", False): "false", ("optcell", True): "Some(..)", ("optcell", False): "None"}[want], why))
    if n == 0:
        r.error("INIT: no table entry in scope")
    return r


# --------------------------------------------------------------------------- WIRE: the public method hands its arguments on unchanged
NARROWING = ("std::ops::Index::index", "std::ops::IndexMut::index_mut", "core::slice::<impl [T]>::get", "core::slice::<impl [T]>::split_first",
             "core::slice::<impl [T]>::split_last", "core::slice::<impl [T]>::first", "core::slice::<impl [T]>::last", "std::iter::Iterator::skip",
             "std::iter::Iterator::take", "std::iter::Iterator::step_by", "std::iter::Iterator::filter", "std::iter::Iterator::rev",
             "std::vec::Vec::truncate", "std::vec::Vec::pop", "std::vec::Vec::remove", "std::vec::Vec::reverse", "core::slice::<impl [T]>::reverse")


def wire_rule(P, E, H, scope=None):
    """`source.op(a, b)` is `Op::new(a, b).execute(source.clone())`: the method passes ITS parameters, each one unchanged and in order, to
    the operator's constructor, runs the operator on a clone of ITSELF, and returns that; the constructor puts every parameter into the
    operator value (through FunctionWrapper::new / to_vec / clone), none dropped, no sub-slice / reversed / truncated copy of a list of inputs.
    (Everything else is checked on `execute` and on what the struct's fields hold.)"""
    r = RuleResult("WIRE", "operator methods pass their parameters unchanged to Op::new and run Op::execute on a clone of self; Op::new keeps every parameter")
    n = 0

    def flows(b, op, depth=0, seen=None, calls=None):
        """constructor parameters an operand derives from (through calls' arguments, aggregates, closures' captures)"""
        seen = seen if seen is not None else set()
        out = set()
        if depth > 8 or not isinstance(op, dict) or op.get("k") not in ("copy", "move"):
            return out
        for t in b.operand_prov(op):
            if (t, depth > 0) in seen:
                continue
            seen.add((t, depth > 0))
            if t[0] == "param":
                out.add(t[1])
            elif t[0] == "agg":
                rv = b.blocks[t[1][0]]["stmts"][t[1][1]]["rv"]
                for o in rv.get("ops", []):
                    out |= flows(b, o, depth + 1, seen, calls)
            elif t[0] == "ret":
                k = b.call_at(t[1])
                if k is not None:
                    if calls is not None:
                        calls.add(k.path)
                    for o in k.args:
                        out |= flows(b, o, depth + 1, seen, calls)
        return out
    for b in sorted(P.orig.values(), key=lambda x: x.nid):
        if b.kind != "assoc" or not b.nid.startswith("operators::") or b.impl_trait or b.vis != "pub":
            continue
        if norm(ty_adt(b.impl_self) or "") != "observable::Observable":
            continue
        tr = b.nid
        if scope is not None and not scope(b.nid.split("::")[1]):
            continue
        news = [c for c in b.calls if c.local and c.path.startswith("operators::") and c.path.endswith("::new")]
        execs = [c for c in b.calls if c.local and c.path.startswith("operators::") and c.path.split("::")[-1] == "execute"]
        if len(news) != 1 or b.nid.split("::")[1] == "to_vec":
            continue             # not of the `Op::new(..).execute(self)` family (to_vec returns a future, not an Observable: W rules)
        n += 1
        nw = news[0]
        self_first = not execs            # publish / ref_count / replay: Op::new(self.clone())
        want = ([1] if self_first else []) + list(range(2, b.argc + 1))
        got = []
        for a in nw.args:
            pv = b.operand_prov(a)
            got.append(sorted(t[1] for t in pv if t[0] == "param" and not t[2]) if all(t[0] == "param" and not t[2] for t in pv) else None)
        r.instance((tr, "arguments"), True, "Op::new receives parameters %s" % got)
        if got != [[i] for i in want]:
            r.violate((tr, "arguments not passed on unchanged"),
                      "%s hands Op::new %s instead of its own parameters %s, each unchanged and in order" % (b.nid.split("::")[-1], got, want), body=b, line=nw.line)
        if execs:
            ex = execs[0]
            ok0 = ex.args and all(t[0] == "ret" and t[1] == nw.bb and not t[2] for t in b.operand_prov(ex.args[0]))
            ok1 = len(ex.args) > 1 and all(t[0] == "param" and t[1] == 1 for t in b.operand_prov(ex.args[1]))
            okr = all(t[0] == "ret" and t[1] == ex.bb and not t[2] for t in b.local_prov(0))
            if not (ok0 and ok1 and okr) or len(execs) != 1:
                r.violate((tr, "operator not run on self"),
                          "%s does not return Op::execute(the operator it just built, a clone of self)" % b.nid.split("::")[-1], body=b, line=ex.line)
        # the constructor
        nbs = [x for x in P.orig.values() if x.nid == nw.path]
        if len(nbs) != 1:
            continue
        nb = nbs[0]
        aggs = [(i, st) for i in sorted(nb.reach) for st in nb.blocks[i]["stmts"]
                if st["k"] == "assign" and st["lhs"] == [0] and st["rv"]["k"] == "agg" and st["rv"].get("ak") == "adt"]
        if len(aggs) != 1:
            r.instance((nw.path, "constructor"), False, "not decided: %d aggregates returned" % len(aggs))
            continue
        calls = set()
        kept = set()
        for o in aggs[0][1]["rv"]["ops"]:
            kept |= flows(nb, o, calls=calls)
        r.instance((nw.path, "constructor"), True, "keeps parameters %s via %s" % (sorted(kept), sorted(c.split("::")[-1] for c in calls)))
        missing = [i for i in range(1, nb.argc + 1) if i not in kept]
        if missing:
            r.violate((nw.path, "constructor drops a parameter"),
                      "%s does not put its parameter(s) %s into the operator it builds: what the caller passed is ignored"
                      % (nw.path.split("operators::")[-1], [nb.locals[i].get("name") or i for i in missing]), body=nb)
        for k in nb.calls:          # narrowing applied to (something derived from) a parameter anywhere in the constructor
            if k.path in NARROWING and k.args and any(t[0] == "param" for t in nb.operand_prov(k.args[0])):
                calls.add(k.path)
        bad = sorted(c for c in calls if c in NARROWING)
        if bad:
            r.violate((nw.path, "constructor narrows a parameter"),
                      "%s stores only part / a re-ordered copy of a parameter (%s): inputs the caller passed are dropped or permuted"
                      % (nw.path.split("operators::")[-1], ", ".join(x.split("::")[-1] for x in bad)), body=nb)
    # Observable::subscribe hands the user's three callbacks, as they are, to Observer::new and subscribes that observer: every
    # guarantee about what a subscriber sees is a guarantee about the Observer's slots - a wrapper around a callback is outside it
    if scope is None or scope("observable"):
        sb = P.orig.get(next((x.id for x in P.orig.values() if x.nid == "observable::Observable::subscribe"), None))
        if sb is None:
            r.error("WIRE: anchor missing: Observable::subscribe")
        else:
            news = [c for c in sb.calls if atom(c) == "observer_new"]
            subs = [c for c in sb.calls if atom(c) == "subscribe"]
            got = []
            for c in news[:1]:
                for a in c.args:
                    pv = sb.operand_prov(a)
                    got.append(sorted(t[1] for t in pv) if all(t[0] == "param" and not t[2] for t in pv) else None)
            r.instance(("observable::Observable::subscribe", "callbacks"), True, "Observer::new receives parameters %s" % got)
            if len(news) != 1 or got != [[2], [3], [4]]:
                r.violate(("observable::Observable::subscribe", "callbacks not handed to the observer unchanged"),
                          "Observable::subscribe does not build its Observer from exactly its own three callback parameters (got %s): what the "
                          "subscriber's callbacks see is then no longer what the Observer lets through" % got, body=sb)
            elif len(subs) != 1 or not all(t[0] == "ret" and t[1] == news[0].bb for t in sb.operand_prov(subs[0].args[1])) \
                    or not all(t[0] == "param" and t[1] == 1 for t in sb.operand_prov(subs[0].args[0])):
                r.violate(("observable::Observable::subscribe", "observer not subscribed to self"),
                          "Observable::subscribe does not subscribe exactly the Observer it built to the observable it was called on", body=sb)
    if n < 45 and scope is None:
        r.error("WIRE: only %d operator methods of the Op::new(..).execute(self) family found (floor 45)" % n)
    return r


def reg_all(P, E, H):
    """Every input an operator subscribes from code that owns a StreamController is subscribed with an observer REGISTERED in that controller
    (`sctl.new_observer(..)`): finalize() unsubscribes exactly what is registered, so an input behind a bare `Observer::new(..)` is never cut
    when the stream ends - it stays subscribed (a hot trigger keeps the operator's closures for good, an interval keeps its thread)."""
    r = RuleResult("REG-ALL", "operators subscribe their inputs only with observers registered in their StreamController")
    n = 0
    for c in E.sites["create"]:
        cl = c.arg_closure(0)
        sb = P.bodies.get(cl) if cl else None
        if sb is None or not norm(sb.root).startswith("operators::"):
            continue
        scope = [sb] + P.descendants(sb)
        if not any(atom(k) == "sctl_new" or k.path.endswith("StreamController::new") for b in scope for k in b.calls):
            continue
        for b in scope:
            for k in b.calls:
                if atom(k) != "subscribe" or not k.path.endswith("::inner_subscribe") or len(k.args) < 2:
                    continue
                n += 1
                kinds = set()
                for t in b.operand_prov(k.args[1]):
                    for g in P.global_cell(b, t, through_helpers=True):
                        gb = P.bodies[g[0]]
                        if g[1] == "ret":
                            kc = gb.call_at(g[2])
                            kinds.add(atom(kc) or (kc.path if kc is not None else "?"))
                        else:
                            kinds.add(g[1])
                r.instance((H.type_root(P.bodies.get(sb.root) or sb), "registered input", b.nid), True, "observer from %s" % sorted(kinds))
                if "observer_new" in kinds:
                    r.violate((H.type_root(P.bodies.get(sb.root) or sb), "input subscribed with an unregistered observer"),
                              "%s subscribes an input with a bare Observer::new(..) although it owns a StreamController: that input is not in the "
                              "controller's registry, so nothing unsubscribes it when the stream ends" % b.nid, body=b, line=k.line)
    if n < 40:
        r.error("REG-ALL: only %d inner_subscribe sites in operators with a StreamController (floor 40)" % n)
    return r
