"""Scheduler-usage rules: T1 (every scheduler created for a subscription has abort() wired to
its end, DESIGN 6 C15) and the observe_on / subscribe_on hand-off rules (DESIGN 6 C09)."""
from core import RuleResult
from effects import *
from rules_h import Handlers, MustEngine
from rules_c17 import _roots, _any_alias


def _sched_calls(b, name):
    return [c for c in b.calls if c.path == ISCHED + "::" + name]


def scheduler_instances(P, E):
    """{(body id, alloc bb): dict(body, bb, posts=[(body, call)], aborts=[(body, call)])} —
    scheduler values created inside a body, found as provenance roots of IScheduler::post/abort
    receivers."""
    inst = {}
    for b in P.bodies.values():
        for kind in ("post", "abort"):
            for c in _sched_calls(b, kind):
                for t in b.operand_prov(c.args[0]):
                    for g in P.global_cell(b, t):
                        if g[1] != "ret":
                            key = (g[0], "%s:%s" % (g[1], g[2]))
                        else:
                            key = (g[0], g[2])
                        d = inst.setdefault(key, dict(body=P.bodies[g[0]], root=g, posts=[], aborts=[]))
                        d[kind + "s"].append((b, c))
    return inst


def t1_abort_wired(P, E):
    r = RuleResult("T1", "every scheduler created inside a subscription has abort() wired to the end of that "
                         "subscription: set_on_finalize(abort) before the first post, or every posted task aborts on every path")
    inst = scheduler_instances(P, E)
    n = 0
    for key, d in sorted(inst.items(), key=lambda kv: str(kv[0])):
        B = d["body"]
        g = d["root"]
        if g[1] != "ret":
            # scheduler handed in from outside (e.g. a parameter): not created here
            if g[1] == "param":
                continue
            r.error("scheduler instance with unresolved origin in %s" % B.nid)
            continue
        if not d["posts"]:
            continue
        n += 1
        rootfn = norm(B.root)
        alloc_bb = g[2]
        # (a) set_on_finalize(closure that aborts an alias) in B, on every path, before any post in B
        sof = []
        for c in B.calls:
            if atom(c) == "set_on_finalize":
                cl = c.arg_closure(1)
                cb = P.bodies.get(cl) if cl else None
                if cb is not None and any(x[0].id == cb.id for x in d["aborts"]):
                    sof.append(c.bb)
        ok_a = False
        why = ""
        if sof:
            posts_in_B = [c.bb for (x, c) in d["posts"] if x.id == B.id]
            # tasks posted from handler closures become possible as soon as B subscribes an upstream
            if any(x.id != B.id for (x, c) in d["posts"]):
                posts_in_B += [c.bb for c in B.calls if atom(c) == "subscribe"]
            skip_path = Effects.path_avoiding(B, B.returns, sof, start=alloc_bb)
            early_post = Effects.path_avoiding(B, posts_in_B, sof, start=alloc_bb) if posts_in_B else None
            if skip_path is None and early_post is None:
                ok_a = True
            else:
                why = "set_on_finalize(abort) can be skipped or comes after a post / after the upstream was subscribed"
        # (b) every task posted on it aborts on every path
        ok_b = bool(d["posts"])
        for (x, c) in d["posts"]:
            cl = c.arg_closure(1)
            tb = P.bodies.get(cl) if cl else None
            if tb is None:
                ok_b = False
                continue
            ab = [k.bb for k in _sched_calls(tb, "abort")
                  if any(gg[0] == g[0] and gg[1] == g[1] and gg[2] == g[2] for t in tb.operand_prov(k.args[0]) for gg in P.global_cell(tb, t))]
            if not ab or Effects.path_avoiding(tb, tb.returns, ab) is not None:
                ok_b = False
        # the controller has ONE on_finalize slot: a second set_on_finalize anywhere in this subscription's code replaces the abort
        all_sof = [c for x in [B] + P.descendants(B) for c in x.calls if atom(c) == "set_on_finalize"]
        if ok_a and len(all_sof) > 1:
            r.violate((rootfn, "on_finalize registered twice"),
                      "this subscription's code calls set_on_finalize %d times: the StreamController keeps only the last hook, so the one that "
                      "aborts the scheduler is replaced and the worker thread outlives the subscription" % len(all_sof), body=B, line=all_sof[-1].line)
        r.instance((rootfn, "scheduler"), True, "created in %s; wired by %s" % (B.nid, "on_finalize" if ok_a else ("task" if ok_b else "NOTHING")))
        if not (ok_a or ok_b):
            r.violate((rootfn, "scheduler abort not wired"),
                      "a scheduler is created for this subscription but abort() is neither registered with set_on_finalize "
                      "before the first post nor called by every posted task on every path (%s): its worker thread "
                      "outlives the subscription" % (why or "no wiring found"), body=B, line=B.call_at(alloc_bb).line if B.call_at(alloc_bb) else None)
    if n < 5:
        r.error("T1: only %d scheduler instantiation sites found (floor 5)" % n)
    return r


def sched_factory_fresh(P, E):
    """`schedulers::new_thread_scheduler()` returns a factory; every call of the factory builds a NEW scheduler (its own queue, flag and
    worker) - the factory's body is `NewThreadScheduler::new()` and nothing else.  A factory that hands out a cached / shared scheduler
    makes independent subscriptions share one queue: aborting one discards the other's tasks and stops its worker."""
    r = RuleResult("Q14", "the new_thread_scheduler factory builds a fresh NewThreadScheduler on every call")
    fb = [b for b in P.bodies.values() if b.kind == "closure" and b.nid.startswith("schedulers::new_thread_scheduler::new_thread_scheduler::")
          and b.parent_id and norm(b.parent_id).endswith("new_thread_scheduler::new_thread_scheduler")]
    if not fb:
        # `fn() -> NewThreadScheduler` given as the constructor itself: new_thread_scheduler() returns the fn item NewThreadScheduler::new
        outer = [b for b in P.orig.values() if b.nid == "schedulers::new_thread_scheduler::new_thread_scheduler"]
        if len(outer) == 1:
            ob = outer[0]
            direct = False
            for i in sorted(ob.reach):
                for st in ob.blocks[i]["stmts"]:
                    if st["k"] == "assign" and st["lhs"] == [0]:
                        rv = st["rv"]
                        op = rv.get("op") if rv["k"] in ("use", "cast") else None
                        if isinstance(op, dict) and op.get("k") == "const" and norm(op.get("fn") or "").endswith("NewThreadScheduler::new"):
                            direct = True
            r.instance((ob.nid, "factory"), True, "returns the constructor itself: %s" % direct)
            if direct and not ob.calls:
                return r
    if len(fb) != 1:
        r.error("Q14: factory closure of schedulers::new_thread_scheduler not found (%d candidates)" % len(fb))
        return r
    b = fb[0]
    news = [c for c in b.calls if c.path.endswith("NewThreadScheduler::new")]
    others = [c.path for c in b.calls if not c.path.endswith("NewThreadScheduler::new")]
    ret_ok = len(news) == 1 and all(t[0] == "ret" and t[1] == news[0].bb and not t[2] for t in b.local_prov(0))
    r.instance((b.nid, "factory"), True, "NewThreadScheduler::new calls %d, other calls %s" % (len(news), others))
    if not ret_ok or others or b.upvars:
        r.violate((b.nid, "factory does not build a fresh scheduler"),
                  "the closure returned by new_thread_scheduler() is not just `NewThreadScheduler::new()` (other calls: %s, captures: %d): "
                  "schedulers handed to different subscriptions may be one and the same" % (others, len(b.upvars)), body=b)
    return r


def t2_one_scheduler(P, E):
    """One scheduler per subscription, made by the per-subscribe code itself (the closure given to Observable::create), once: not by a
    handler on the first event, not in a loop.  (Handlers of one subscription run on several threads - merge, flat_map, zip upstream - :
    a scheduler made lazily by `the first event` is made twice when two first events race, one of them is orphaned with the event it was
    given, and FIFO / one-thread / nothing-lost are gone.)"""
    r = RuleResult("T2", "each subscription's scheduler is created once, directly in the closure given to Observable::create")
    inst = scheduler_instances(P, E)
    n = 0
    for key, d in sorted(inst.items(), key=lambda kv: str(kv[0])):
        B, g = d["body"], d["root"]
        if g[1] != "ret" or not d["posts"]:
            continue
        n += 1
        roles = E.role_of(B.id)
        rootfn = norm(B.root)
        r.instance((rootfn, "scheduler creation"), True, "created in %s (roles %s)%s" % (B.nid, roles, ", in a loop" if B.in_cycle(g[2]) else ""))
        if "SOURCE" not in roles:
            r.violate((rootfn, "scheduler not created by the per-subscribe code"),
                      "the scheduler of this subscription is created in %s (roles %s), not in the closure given to Observable::create: "
                      "code that can run more than once per subscription (or on several threads) makes more than one scheduler" % (B.nid, roles),
                      body=B, line=B.call_at(g[2]).line if B.call_at(g[2]) else None)
        elif B.in_cycle(g[2]):
            r.violate((rootfn, "scheduler created in a loop"), "the per-subscribe code creates its scheduler inside a loop", body=B)
    if n < 5:
        r.error("T2: only %d scheduler instantiation sites found (floor 5)" % n)
    return r


# --------------------------------------------------------------------------- C09

MATCH = {"N": "sink_next", "E": "sink_error", "C": "sink_complete"}


def handoff_rules(P, E, H):
    r = RuleResult("HANDOFF", "a handler that hands its event to a scheduler posts exactly one task on every path, "
                              "sinks nothing itself, and the task calls the matching sink with the handler's own payload")
    n = 0
    for t in H.triples:
        hs = t["handlers"]
        if not any(hb is not None and _sched_calls(hb, "post") for hb in hs.values()):
            continue
        for role, hb in hs.items():
            if hb is None:
                continue
            n += 1
            key = H.key(hb)
            posts = _sched_calls(hb, "post")
            r.instance(key, True, "%s-handler posts %d task(s)" % (role, len(posts)))
            direct = [c for c in hb.calls if atom(c) in ("sink_next", "sink_error", "sink_complete", "sink_complete_force")]
            if direct:
                r.violate(key + ("handler sinks directly",),
                          "the handler calls %s itself instead of posting: the event is delivered on the emitting thread, "
                          "possibly overtaking queued events" % atom(direct[0]), body=hb, line=direct[0].line)
            if len(posts) != 1 or hb.in_cycle(posts[0].bb) or Effects.path_avoiding(hb, hb.returns, [posts[0].bb]) is not None:
                r.violate(key + ("not exactly one post per event",),
                          "the handler does not post exactly one task on every path (%d post sites): events are lost or duplicated"
                          % len(posts), body=hb)
                continue
            cl = posts[0].arg_closure(1)
            tb = P.bodies.get(cl) if cl else None
            if tb is None:
                r.error("posted task of %s is not a closure" % hb.nid)
                continue
            want = MATCH[role]
            sinks = [c for c in tb.calls if atom(c) in ("sink_next", "sink_error", "sink_complete", "sink_complete_force")]
            good = [c for c in sinks if atom(c) == want and H.derived_from_param(tb, c.args[1], hb, 3 if role != "C" else 2)]
            if len(sinks) != 1 or len(good) != 1 or Effects.path_avoiding(tb, tb.returns, [good[0].bb]) is not None:
                r.violate(key + ("task does not deliver the matching event",),
                          "the posted task must call %s exactly once with the handler's own payload; found %s"
                          % (want, [atom(c) for c in sinks]), body=tb)
    if n < 3:
        r.error("HANDOFF: no posting handler triple found (observe_on expected)")
    return r


def abort_who_may_call(P, E):
    r = RuleResult("ABORT-WHO", "IScheduler::abort is reached only from an on_finalize closure or from inside a posted "
                                "task (never from a handler: the tail of the queue would be lost)")
    n = 0
    for b in P.bodies.values():
        for c in _sched_calls(b, "abort"):
            n += 1
            roles = E.role_of(b.id)
            r.instance((b.nid, "abort"), True, "roles %s" % roles)
            ok = any(x in ("ON_FINALIZE", "TASK") for x in roles) or b.nid.startswith("schedulers::") or b.nid.startswith("<schedulers::")
            if not ok:
                r.violate((norm(b.root), "abort outside on_finalize/task"),
                          "scheduler.abort() is called from %s (roles %s): queued events behind it are discarded" % (b.nid, roles),
                          body=b, line=c.line)
    if n < 5:
        r.error("ABORT-WHO: only %d abort sites (floor 5)" % n)
    return r


def subscribe_on_rule(P, E):
    r = RuleResult("SUBSCRIBE-ON", "subscribe_on subscribes its source only inside the posted task")
    root = P.body("operators::subscribe_on::SubscribeOn::execute")
    if root is None:
        r.error("anchor missing: SubscribeOn::execute")
        return r
    n = 0
    for b in P.descendants(root):
        for c in b.calls:
            if atom(c) == "subscribe":
                n += 1
                roles = E.role_of(b.id)
                r.instance((b.nid, "subscribe"), True, "roles %s" % roles)
                if "TASK" not in roles:
                    r.violate(("operators::subscribe_on::SubscribeOn::execute", "subscribes outside the task"),
                              "the source is subscribed on the caller's thread", body=b, line=c.line)
    if n < 1:
        r.error("SUBSCRIBE-ON: no subscribe found")
    # the task is posted on every path of the SOURCE body
    for b in P.descendants(root):
        if "SOURCE" in E.role_of(b.id):
            posts = [c.bb for c in _sched_calls(b, "post")]
            r.instance((b.nid, "post"), True, None)
            if not posts or Effects.path_avoiding(b, b.returns, posts) is not None:
                r.violate(("operators::subscribe_on::SubscribeOn::execute", "task not posted"),
                          "a path through subscribe_on's source never posts the subscribing task", body=b)
    return r
