"""Capture / ownership rules (DESIGN 5.6): K-fresh-state, K-fw-immutable."""
from core import RuleResult
from effects import *

ALLOWED_HANDLES = {FW, OBSERVABLE}           # never written after construction (K-fw-immutable)
REPORTED_HANDLES = {OBSERVER, SUBSCRIPTION, SCTL} | set(SUBJECTS)


def _fn_sig(b):
    ret = b.locals[0]["ty"]
    params = [b.locals[i]["ty"] for i in range(1, b.argc + 1)]
    return ret, params


def cold_constructor(P, src_closure):
    """The SOURCE closure's root function is a cold constructor by shape."""
    root = P.bodies.get(src_closure.root)
    if root is None:
        return False, None
    ret, params = _fn_sig(root)
    if norm(ty_adt(ret) or "") != OBSERVABLE:
        return False, root
    takes_obs = any(norm(ty_adt(p) or "") == OBSERVABLE for p in params)
    is_execute = root.kind == "assoc" and root.name == "execute"
    is_free = root.kind == "fn"
    return (takes_obs or is_execute or is_free), root


def classify_leaf(leaf):
    """cell: a raw std lock/atomic owned directly; handle: a lock inside a mutable handle type
    (Observer, Subscription, StreamController, subjects, or any other crate type that owns a
    lock directly); allowed: the lock of a FunctionWrapper/Observable (never written after
    construction, K-fw-immutable) not nested in a mutable handle; opaque: no lock visible
    (type parameter / dyn): a `Fn` closure can only clone or call it."""
    if leaf["end"] in ("param", "dyn", "alias"):
        return "opaque", leaf.get("ty", "")
    chain = [norm(c) for c in leaf["chain"] if not c.startswith("closure:")]
    crate = [c for c in chain if not (c.startswith("std::") or c.startswith("core::")
                                      or c.startswith("alloc::"))]
    for c in crate:
        if c in REPORTED_HANDLES:
            return "handle", c
    if not crate:
        return ("cell", leaf.get("ty", "")) if leaf["end"] == "lock" else ("unknown", leaf["end"])
    if crate[-1] in ALLOWED_HANDLES:
        return "allowed", crate[-1]
    return "handle", crate[-1]


def _reaches_upvar(P, body, term, sb, upidx, depth=0):
    """does `term` (in `body`, a descendant of closure sb or sb itself) denote upvar #upidx of sb?"""
    rk, rd, path = term
    if body.id == sb.id:
        return rk == "upvar" and rd == upidx
    if rk != "upvar" or depth > 6:
        return False
    parent, provs = P.upvar_origin(body, rd)
    if parent is None:
        return False
    return any(_reaches_upvar(P, parent, t, sb, upidx, depth + 1) for t in provs)


def _used_as_scheduler(P, sb, upidx):
    for b in [sb] + P.descendants(sb):
        for c in b.calls:
            if c.path in (ISCHED + "::post", ISCHED + "::abort") and c.args:
                if any(_reaches_upvar(P, b, t, sb, upidx) for t in b.operand_prov(c.args[0])):
                    return True
    return False


def k_fresh_state(P, E, scope=None):
    r = RuleResult("K-fresh-state", "the closure given to Observable::create in a cold constructor "
                                    "captures no mutable per-subscription cell allocated outside it")
    for c in E.sites["create"]:
        cl = c.arg_closure(0)
        if cl is None:
            # create(f) with a non-closure argument: a forwarding wrapper; must be generic param
            r.instance((c.body.nid, "create(non-closure)"), False)
            continue
        sb = P.bodies.get(cl)
        if sb is None:
            r.error("SOURCE closure body missing: %s" % cl)
            continue
        cold, root = cold_constructor(P, sb)
        rootn = norm(sb.root)
        if scope is not None and not scope(rootn):
            continue
        if not cold:
            r.instance((rootn, "hot/other constructor"), False)
            continue
        bad = []
        for u in sb.upvars:
            for leaf in u["leaves"]:
                kind, what = classify_leaf(leaf)
                if kind in ("cell", "handle", "unknown"):
                    bad.append((u.get("name") or str(u["idx"]), kind, what, u["ty"]["s"]))
            # an opaque (type-parameter) capture that this subscription uses as a *scheduler*
            # (post/abort are called on it) is a stateful instance shared between subscriptions
            if any(classify_leaf(l)[0] == "opaque" for l in u["leaves"]) or ty_peel(u["ty"]).get("k") == "param":
                if _used_as_scheduler(P, sb, u["idx"]):
                    bad.append((u.get("name") or str(u["idx"]), "scheduler instance", u["ty"]["s"], u["ty"]["s"]))
        r.instance((rootn, sb.nid), len(sb.upvars) > 0,
                   "captures: %s" % ", ".join("%s: %s" % (u.get("name"), u["ty"]["s"]) for u in sb.upvars))
        seen = set()
        for (name, kind, what, ty) in bad:
            if name in seen:
                continue
            seen.add(name)
            _, origin = P.upvar_origin(sb, [u for u in sb.upvars if (u.get("name") or str(u["idx"])) == name][0]["idx"])
            parent = P.created[sb.id][0]
            r.violate((rootn, "captured %s" % name),
                      "the per-subscribe closure captures `%s: %s` (%s %s) from outside: state shared "
                      "between subscriptions of one Observable value (origin: %s)"
                      % (name, ty, kind, what, ", ".join(sorted(parent.term_name(t) for t in origin))),
                      body=sb)
    return r


def k_fw_immutable(P, E):
    """FunctionWrapper::clear is called only inside impl Observer and only on the observer's own
    callback slots (so operator functions / observables captured by SOURCE closures are never
    emptied)."""
    r = RuleResult("K-fw-immutable", "FunctionWrapper::clear is called only by impl Observer on its own slots")
    for c in E.sites["fw_clear"]:
        b = c.body
        prov = b.operand_prov(c.args[0])
        own = all(rk == "param" and rd == 1 and path[:1] in (("fn_next",), ("fn_error",), ("fn_complete",)) for (rk, rd, path) in prov)
        r.instance((b.nid, "clear"), True, "clear on %s" % sorted(b.term_name(t) for t in prov))
        if not (b.nid.startswith(OBSERVER + "::") and b.kind == "assoc" and own):
            r.violate((b.nid, "FunctionWrapper::clear"),
                      "a FunctionWrapper is cleared outside impl Observer (or not one of the observer's own slots): a "
                      "captured operator function / observable can be emptied for later subscriptions", body=b, line=c.line)
    return r


def k_slot_fresh(P, E):
    """The slots an Observer clears at its terminal / unsubscribe are its OWN cells: wherever an Observer value is built, each of
    its three callback slots is a FunctionWrapper made right there (FunctionWrapper::new of a closure) - never a wrapper that was
    handed in or cloned from somewhere (clones of a FunctionWrapper share one cell: the observer's first terminal would empty the
    operator's callback for every later subscription).  The same for Subscription's take-once `fn_unsubscribe`."""
    r = RuleResult("K-slot-fresh", "the cells an Observer / Subscription empties are created by its own constructor (FunctionWrapper::new there)")
    table = {OBSERVER: ("fn_next", "fn_error", "fn_complete"), "subscription::Subscription": ("fn_unsubscribe",)}
    ren = P.facts.get("_field_renames_q") or {}
    n = 0
    for b in P.bodies.values():
        if b.id in P.absorbed or b.kind == "const":
            continue
        if b.name == "clone" and "Clone" in (b.impl_trait or ""):
            continue          # a clone of the SAME observer shares its cells by design (CLONE-SHARES)
        for i in sorted(b.reach):
            for st in b.blocks[i]["stmts"]:
                if st["k"] != "assign" or st["rv"]["k"] != "agg" or st["rv"].get("ak") != "adt":
                    continue
                adt = norm(st["rv"].get("def") or "")
                if adt not in table:
                    continue
                a = P.adts.get(adt)
                if a is None or len(a["variants"]) != 1:
                    r.error("K-slot-fresh: struct %s not found" % adt)
                    continue
                canon = [ren.get((adt, f["name"]), f["name"]) for f in a["variants"][0]["fields"]]
                n += 1
                for fld in table[adt]:
                    if fld not in canon:
                        r.error("K-slot-fresh: field %s of %s not identified" % (fld, adt))
                        continue
                    op = st["rv"]["ops"][canon.index(fld)]
                    fresh = False
                    for t in b.operand_prov(op):
                        if t[0] == "ret" and not t[2]:
                            k = b.call_at(t[1])
                            if k is not None and atom(k) == "fw_new":
                                fresh = True
                                continue
                        fresh = False
                        break
                    r.instance((b.nid, adt.split("::")[-1], fld), True, "built by FunctionWrapper::new here: %s" % fresh)
                    if not fresh:
                        r.violate((b.nid, adt.split("::")[-1] + "." + fld, "slot is not a fresh cell"),
                                  "%s builds a %s whose `%s` is not a FunctionWrapper created on the spot but %s: clones of a FunctionWrapper share "
                                  "one cell, so when this %s empties the slot (terminal / unsubscribe) it empties the original too - for every "
                                  "later subscription" % (b.nid, adt.split("::")[-1], fld, sorted(b.term_name(t) for t in b.operand_prov(op)),
                                                          adt.split("::")[-1]), body=b, line=st.get("line"))
    if n < 2:
        r.error("K-slot-fresh: only %d Observer / Subscription constructions found (floor 2)" % n)
    return r
