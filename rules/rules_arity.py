"""ARITY (C03 / C11): a combinator over `self + N others` prepares exactly as many upstream observers - and, for zip, as many
per-input queues - as it subscribes inputs.  One observer too many is an upstream that never completes (the remove-and-test in
sink_complete never finds the map empty: the whole never completes); one too few is an input that is never observed (or a panic on
the empty pool).  One queue too many in zip is a row that is never full.

All three numbers are read off the per-subscribe code as affine expressions a*L + k in L = the length of the operator's vector of
inputs: multiplicity of a call site = product of the sizes of the iterations it is nested in (`0..n` ranges, `inputs.iter()`,
adapters that keep the length, `for` loops and closures handed to map/for_each), nothing is executed."""
from core import RuleResult
from model import norm
from effects import atom

SIZE_KEEPING = ("std::iter::Iterator::map", "std::iter::Iterator::enumerate", "std::iter::Iterator::cloned", "std::iter::Iterator::copied",
                "std::iter::Iterator::rev", "std::iter::Iterator::by_ref", "std::iter::IntoIterator::into_iter", "std::iter::Iterator::inspect",
                "std::iter::Iterator::peekable", "std::ops::Deref::deref", "std::ops::DerefMut::deref_mut", "std::clone::Clone::clone",
                "std::convert::AsRef::as_ref", "std::vec::Vec::as_slice", "std::borrow::Borrow::borrow")
ITER_OF = ("core::slice::<impl [T]>::iter", "core::slice::<impl [T]>::iter_mut", "std::vec::Vec::iter", "std::collections::VecDeque::iter",
           "core::slice::iter", "std::slice::iter")
LEN_OF = ("std::vec::Vec::len", "core::slice::<impl [T]>::len", "std::collections::VecDeque::len", "core::slice::len")
COLLECT = ("std::iter::FromIterator::from_iter", "std::iter::Iterator::collect")
CONSUME_EACH = ("std::iter::Iterator::for_each", "std::iter::Iterator::map", "std::iter::Iterator::try_for_each", "std::iter::Iterator::inspect",
                "std::iter::Iterator::filter_map", "std::iter::Iterator::flat_map")


class Und(Exception):
    pass


def _add(x, y):
    return (x[0] + y[0], x[1] + y[1])


def _mul(x, y):
    if x[0] == 0:
        return (y[0] * x[1], y[1] * x[1])
    if y[0] == 0:
        return (x[0] * y[1], x[1] * y[1])
    raise Und("product of two input-dependent sizes")


def _fmt(x):
    if x[0] == 0:
        return str(x[1])
    s = "L" if x[0] == 1 else "%d*L" % x[0]
    return s if x[1] == 0 else "%s%+d" % (s, x[1])


def _is_inputs_ty(s):
    return "observable::Observable" in s and ("Vec<" in s or "[" in s or "VecDeque<" in s) and "Observer<" not in s


class Arity:
    def __init__(self, P, E):
        self.P, self.E = P, E

    # ---- the single definition of a local (the crate's per-subscribe code assigns such temporaries once)
    def _def(self, b, l):
        ds = [d for d in b.defs.get(l, []) if not (d[0] == "assign" and len(d[1]["lhs"]) > 1)]
        if len(ds) != 1:
            raise Und("local _%d has %d definitions" % (l, len(ds)))
        return ds[0]

    def _ty(self, b, l):
        return b.locals[l]["ty"]["s"]

    def val(self, b, op, depth=0):
        """integer value of an operand as (a, k) = a*L + k"""
        if depth > 12:
            raise Und("value too deep")
        if op["k"] == "const":
            if "int" in op:
                return (0, int(op["int"]))
            raise Und("non-integer constant")
        p = op["p"]
        l = p[0]
        proj = [e for e in p[1:] if e != "*"]
        if 1 <= l <= b.argc:
            if b.kind == "closure" and l == 1 and proj:
                return self._upvar_val(b, proj, depth)
            raise Und("value is a parameter")
        d = self._def(b, l)
        if d[0] == "assign":
            rv = d[1]["rv"]
            if rv["k"] == "use":
                if proj:
                    raise Und("projection of a copied value")
                return self.val(b, rv["op"], depth + 1)
            if rv["k"] == "ref":
                return self.val(b, {"k": "copy", "p": rv["p"]}, depth + 1)
            if rv["k"] == "binop":
                o = rv["op"]
                if proj not in ([], [".0"]):
                    raise Und("projection of an arithmetic result")
                x, y = self.val(b, rv["a"], depth + 1), self.val(b, rv["b"], depth + 1)
                if o.startswith("Add"):
                    return _add(x, y)
                if o.startswith("Sub"):
                    return _add(x, (-y[0], -y[1]))
                if o.startswith("Mul"):
                    return _mul(x, y)
                raise Und("arithmetic %s" % o)
            if rv["k"] == "cast":
                return self.val(b, rv["op"], depth + 1)
            raise Und("value from %s" % rv["k"])
        t = d[1]
        f = t["fn"]
        path = norm(f.get("path")) if f["k"] == "def" else None
        if path in LEN_OF and t["args"]:
            return self.size(b, t["args"][0], depth + 1)
        if path in ("std::clone::Clone::clone", "std::ops::Deref::deref") and t["args"]:
            return self.val(b, t["args"][0], depth + 1)
        if path in ("core::num::<impl usize>::saturating_add", "core::num::<impl usize>::wrapping_add") and len(t["args"]) == 2:
            return _add(self.val(b, t["args"][0], depth + 1), self.val(b, t["args"][1], depth + 1))
        raise Und("value returned by %s" % path)

    def _upvar_val(self, b, proj, depth):
        k = int(proj[0].lstrip(".").split(":")[0]) if proj and proj[0].lstrip(".").split(":")[0].isdigit() else None
        if k is None or len(proj) != 1:
            raise Und("captured value with projection %s" % proj)
        cr = self.P.created.get(b.id)
        if not cr or k >= len(cr[3]):
            raise Und("capture not found")
        return self.val(cr[0], cr[3][k], depth + 1)

    def size(self, b, op, depth=0):
        """number of elements of a collection / iterator operand as (a, k)"""
        if depth > 14:
            raise Und("size too deep")
        if op["k"] == "const":
            raise Und("constant collection")
        p = op["p"]
        l = p[0]
        proj = [e for e in p[1:] if e != "*"]
        # typed shortcut: the operator's vector of inputs (whatever path leads to it)
        if not proj and _is_inputs_ty(self._ty(b, l)) and "Iter<" not in self._ty(b, l) and "Map<" not in self._ty(b, l):
            return (1, 0)
        if 1 <= l <= b.argc:
            if b.kind == "closure" and l == 1 and proj:
                k = proj[0].lstrip(".").split(":")[0]
                if k.isdigit() and int(k) < len(b.upvars) and _is_inputs_ty(b.upvars[int(k)]["ty"]["s"]):
                    return (1, 0)
                cr = self.P.created.get(b.id)
                if k.isdigit() and cr and int(k) < len(cr[3]) and len(proj) == 1:
                    return self.size(cr[0], cr[3][int(k)], depth + 1)
            raise Und("size of a parameter")
        if proj:
            raise Und("size of a projection")
        d = self._def(b, l)
        if d[0] == "assign":
            rv = d[1]["rv"]
            if rv["k"] == "use":
                return self.size(b, rv["op"], depth + 1)
            if rv["k"] == "ref":
                return self.size(b, {"k": "copy", "p": rv["p"]}, depth + 1)
            if rv["k"] == "agg" and norm(rv.get("def", "")) in ("std::ops::Range", "core::ops::Range", "std::ops::Range::Range") and len(rv["ops"]) == 2:
                lo, hi = self.val(b, rv["ops"][0], depth + 1), self.val(b, rv["ops"][1], depth + 1)
                return _add(hi, (-lo[0], -lo[1]))
            raise Und("collection from %s %s" % (rv["k"], rv.get("def", "")))
        t = d[1]
        f = t["fn"]
        path = norm(f.get("path")) if f["k"] == "def" else None
        if path in SIZE_KEEPING or path in ITER_OF or path in COLLECT:
            return self.size(b, t["args"][0], depth + 1)
        if path == "std::ops::RangeInclusive::new" and len(t["args"]) == 2:
            lo, hi = self.val(b, t["args"][0], depth + 1), self.val(b, t["args"][1], depth + 1)
            return _add(_add(hi, (-lo[0], -lo[1])), (0, 1))
        if path in ("std::vec::from_elem", "alloc::vec::from_elem") and len(t["args"]) == 2:
            return self.val(b, t["args"][1], depth + 1)
        raise Und("collection returned by %s" % path)

    def reversed_chain(self, b, op, depth=0):
        """walks the same chain as size(): True when the iteration order of the inputs is reversed an odd number of times,
        False when it is kept, None when the chain is not one of the recognised forms"""
        if depth > 14 or op["k"] == "const":
            return None
        p = op["p"]
        l = p[0]
        proj = [e for e in p[1:] if e != "*"]
        ty = self._ty(b, l)
        if not proj and _is_inputs_ty(ty) and "Iter<" not in ty and "Map<" not in ty and "Rev<" not in ty:
            return False
        if 1 <= l <= b.argc:
            if b.kind == "closure" and l == 1 and proj:
                return False if _is_inputs_ty(ty) or True else None
            return None
        if proj:
            return None
        try:
            d = self._def(b, l)
        except Und:
            return None
        if d[0] == "assign":
            rv = d[1]["rv"]
            if rv["k"] == "use":
                return self.reversed_chain(b, rv["op"], depth + 1)
            if rv["k"] == "ref":
                return self.reversed_chain(b, {"k": "copy", "p": rv["p"]}, depth + 1)
            return None
        t = d[1]
        f = t["fn"]
        path = norm(f.get("path")) if f["k"] == "def" else None
        if path == "std::iter::Iterator::rev":
            x = self.reversed_chain(b, t["args"][0], depth + 1)
            return None if x is None else (not x)
        if path in SIZE_KEEPING or path in ITER_OF or path in COLLECT:
            return self.reversed_chain(b, t["args"][0], depth + 1)
        return None

    def iter_chain(self, b, op, depth=0):
        """the calls an iterator / collection operand went through, outermost first, and the local (or None) it starts from:
        ([call paths], root local or None).  Follows plain moves, references and the first argument of each call."""
        paths = []
        cur = op
        for _ in range(24):
            if cur is None or cur.get("k") not in ("copy", "move"):
                return paths, None
            l = cur["p"][0]
            if 1 <= l <= b.argc:
                return paths, l
            try:
                d = self._def(b, l)
            except Und:
                return paths, l
            if d[0] == "assign":
                rv = d[1]["rv"]
                if rv["k"] == "use":
                    cur = rv["op"]
                    continue
                if rv["k"] == "ref":
                    cur = {"k": "copy", "p": rv["p"]}
                    if len(rv["p"]) > 1 and any(e not in ("*",) for e in rv["p"][1:]):
                        return paths, l          # a field of something: the chain starts here
                    continue
                return paths, l
            t = d[1]
            f = t["fn"]
            path = norm(f.get("path")) if f["k"] == "def" else None
            if path is None or not t["args"]:
                return paths, l
            paths.append(path)
            cur = t["args"][0]
        return paths, None

    def loop_driver_operand(self, b, bb):
        """the iterator a `for` loop around bb runs over (None when bb is not in a recognisable loop)"""
        if not b.in_cycle(bb):
            return None
        fwd = b.reachable_from(bb)
        cyc = {x for x in fwd if bb in b.reachable_from(x)} | {bb}
        found = []
        for c in b.calls:
            if c.bb in cyc and c.path == "std::iter::Iterator::next" and c.args:
                dest = c.dest[0] if c.dest else None
                for i in cyc:
                    t = b.blocks[i]["term"]
                    if t["k"] != "switch":
                        continue
                    tg = [x for _, x in t["targets"]] + [t["otherwise"]]
                    if not any(x not in cyc for x in tg):
                        continue
                    for pt in b.operand_prov(t["discr"]):
                        if pt[0] == "discr" and b.blocks[pt[1][0]]["stmts"][pt[1][1]]["rv"]["p"][0] == dest:
                            found.append(c)
        found = list({c.bb: c for c in found}.values())
        return found[0].args[0] if len(found) == 1 else None

    # ---- how often a block runs per activation of its body
    def loop_mult(self, b, bb):
        if not b.in_cycle(bb):
            return (0, 1)
        drivers = []
        fwd = b.reachable_from(bb)
        cyc = {x for x in fwd if bb in b.reachable_from(x)} | {bb}
        for c in b.calls:
            if c.bb in cyc and c.path == "std::iter::Iterator::next" and c.args:
                # the loop's driver: its Option is switched on, and one way out leaves the cycle
                dest = c.dest[0] if c.dest else None
                for i in cyc:
                    t = b.blocks[i]["term"]
                    if t["k"] != "switch":
                        continue
                    tg = [x for _, x in t["targets"]] + [t["otherwise"]]
                    if not any(x not in cyc for x in tg):
                        continue
                    for pt in b.operand_prov(t["discr"]):
                        if pt[0] == "discr":
                            st = b.blocks[pt[1][0]]["stmts"][pt[1][1]]
                            if st["rv"]["p"][0] == dest:
                                drivers.append(c)
        drivers = list({c.bb: c for c in drivers}.values())
        if len(drivers) != 1:
            raise Und("loop with %d recognisable iterator drivers" % len(drivers))
        c = drivers[0]
        # next(&mut it): the iterator behind the reference
        return self.size(b, c.args[0])

    def body_mult(self, b, top, depth=0):
        if b.id == top.id:
            return (0, 1)
        if depth > 4:
            raise Und("closure nesting too deep")
        for (role, k, idx) in self.E.roles.get(b.id, []):
            if (role == "INLINE" or role.startswith("STD:")) and k.path in CONSUME_EACH and k.args:
                return _mul(self.size(k.body, k.args[0]), self.site_mult(k.body, k.bb, top, depth + 1))
        raise Und("closure %s is not handed to an iterator adapter" % b.nid)

    def site_mult(self, b, bb, top, depth=0):
        return _mul(self.loop_mult(b, bb), self.body_mult(b, top, depth))

    def iteration_bodies(self, top):
        """the per-subscribe closure and the closures it hands to iterator adapters (not the handlers it registers); closures are
        found where they are built in the analysed (inlined) view, so one written inside a private helper counts for its caller"""
        out, work, seen = [top], [top], {top.id}
        while work:
            x = work.pop()
            built = {s_["rv"]["def"] for i in sorted(x.reach) for s_ in x.blocks[i]["stmts"]
                     if s_["k"] == "assign" and s_["rv"]["k"] == "agg" and s_["rv"].get("ak") == "closure"}
            for cid in sorted(built):
                c = self.P.bodies.get(cid)
                if c is None or c.id in seen:
                    continue
                if any((role == "INLINE" or role.startswith("STD:")) and k.path in CONSUME_EACH and k.body.id == x.id
                       for (role, k, idx) in self.E.roles.get(c.id, [])):
                    seen.add(c.id)
                    out.append(c)
                    work.append(c)
        return out


def arity_rule(P, E, H):
    r = RuleResult("ARITY", "combinators over `self + N inputs`: observers registered = inputs subscribed (= queues allocated, zip), as affine "
                            "expressions in N read off the per-subscribe code")
    A = Arity(P, E)
    n = 0
    for c in E.sites["create"]:
        cl = c.arg_closure(0)
        sb = P.bodies.get(cl) if cl else None
        if sb is None:
            continue
        root = P.bodies.get(sb.root)
        if root is None or root.kind != "assoc" or root.name != "execute":
            continue
        tr = H.type_root(root)
        bodies = A.iteration_bodies(sb)
        regs = [(b, k) for b in bodies for k in b.calls if atom(k) == "new_observer"]
        subs = [(b, k) for b in bodies for k in b.calls if atom(k) == "subscribe"]
        looped = [1 for (b, k) in regs + subs if b.id != sb.id or b.in_cycle(k.bb)]
        if not looped:
            continue                      # a fixed number of observers, written out one by one: H-register-first / SUB-inputs
        n += 1
        if not regs or not subs:
            r.instance((tr, "arity"), False, "not decided: %d registration / %d subscription sites visible in the per-subscribe code" % (len(regs), len(subs)))
            continue
        try:
            R = (0, 0)
            for (b, k) in regs:
                R = _add(R, A.site_mult(b, k.bb, sb))
            S = (0, 0)
            for (b, k) in subs:
                S = _add(S, A.site_mult(b, k.bb, sb))
        except Und as e:
            r.instance((tr, "arity"), False, "not decided: %s" % e)
            continue
        r.instance((tr, "arity"), True, "observers registered %s, inputs subscribed %s (L = number of other inputs)" % (_fmt(R), _fmt(S)))
        if R != S:
            more = (R[0], R[1]) > (S[0], S[1])
            r.violate((tr, "observers registered != inputs subscribed"),
                      "%s registers %s upstream observers but subscribes %s inputs (L = length of its vector of inputs): %s"
                      % (tr.split("::")[-1], _fmt(R), _fmt(S),
                         "an observer that is never subscribed never completes, so the remove-and-test in sink_complete never empties the map "
                         "and the subscriber never gets `complete`" if more else
                         "an input is left without an observer (it is never observed, or taking from the empty pool panics)"), body=sb)
        # every input gets an observer of its own: what a looped subscription hands over is TAKEN out of the pool
        CONSUMING = ("std::vec::Vec::pop", "std::collections::VecDeque::pop_front", "std::collections::VecDeque::pop_back", "std::iter::Iterator::next",
                     "std::vec::Vec::remove", "std::vec::Vec::swap_remove", "std::collections::VecDeque::remove")
        WRAP = ("std::option::Option::unwrap", "std::option::Option::expect", "std::option::Option::unwrap_unchecked")
        COPY = ("std::option::Option::cloned", "std::clone::Clone::clone", "std::option::Option::copied")
        for (b, k) in subs:
            if len(k.args) < 2:
                continue
            verdict, shared = None, False
            cur, hops = k.args[1], 0
            while cur is not None and hops < 10 and cur.get("k") in ("copy", "move") and len(cur["p"]) == 1:
                hops += 1
                try:
                    d_ = A._def(b, cur["p"][0])
                except Und:
                    break
                if d_[0] == "assign":
                    rv_ = d_[1]["rv"]
                    cur = rv_["op"] if rv_["k"] == "use" else None
                    continue
                kc = b.call_at(d_[2])
                cur = None
                if kc is None:
                    break
                if kc.path in CONSUMING or atom(kc) == "new_observer":
                    verdict = "taken"
                elif kc.path in COPY and kc.args:
                    shared = True
                    cur = kc.args[0]
                elif kc.path in WRAP and kc.args:
                    cur = kc.args[0]
            looped_site = b.id != sb.id or b.in_cycle(k.bb)
            if looped_site or shared:
                r.instance((tr, "observer per input", "looped" if looped_site else "single"), True, "handed over: %s%s" % (verdict, " (copied)" if shared else ""))
            if shared and verdict != "taken":
                r.violate((tr, "inputs share one observer"),
                          "%s subscribes an input with a COPY of a pooled observer instead of taking one out of the pool: several inputs end up behind "
                          "one upstream key (the first completion removes it for all of them) while the other registered observers are never "
                          "subscribed and never complete" % tr.split("::")[-1], body=b, line=k.line)
        # inputs are subscribed in the order given: the source first, then the others front to back (cold inputs emit in subscription
        # order; zip's tuple positions and amb's winner among cold inputs follow it)
        single = [(b, k) for (b, k) in subs if b.id == sb.id and not b.in_cycle(k.bb)]
        for (b, k) in subs:
            if b.id == sb.id and not b.in_cycle(k.bb):
                continue
            drv = None
            if b.id != sb.id:
                for (role, kk, idx) in E.roles.get(b.id, []):
                    if (role == "INLINE" or role.startswith("STD:")) and kk.path in CONSUME_EACH and kk.args:
                        drv, drv_body, drv_bb = kk.args[0], kk.body, kk.bb
            else:
                d_ = A.loop_driver_operand(b, k.bb)
                if d_ is not None:
                    drv, drv_body, drv_bb = d_, b, k.bb
            if drv is None:
                continue
            rev = A.reversed_chain(drv_body, drv)
            r.instance((tr, "input order"), rev is not None, "others subscribed %s" % {None: "in an order not decided", False: "front to back", True: "back to front"}[rev])
            if rev:
                r.violate((tr, "inputs subscribed in reverse"),
                          "%s subscribes its other inputs back to front: cold inputs then play in the wrong order (zip's tuple positions, amb's winner, "
                          "merge's output order follow the subscription order)" % tr.split("::")[-1], body=b, line=k.line)
            if single and drv_body.id == sb.id:
                dom = sb.dominators()
                if not any(sk.bb in dom[drv_bb] for (_, sk) in single):
                    r.violate((tr, "source not subscribed first"),
                              "%s subscribes its other inputs before the source it was applied to" % tr.split("::")[-1], body=sb, line=k.line)
        # per-input queues (zip): a Vec of queues allocated in the per-subscribe closure
        try:
            Q = None
            for b in bodies:
                for k in b.calls:
                    dt = (k.dest_t or {}).get("s", "") if isinstance(k.dest_t, dict) else ""
                    if k.path == "std::vec::Vec::push" and k.args and "Vec<std::collections::VecDeque<" in A._ty(b, k.args[0]["p"][0]) \
                            and "Observer<" not in A._ty(b, k.args[0]["p"][0]):
                        Q = _add(Q or (0, 0), A.site_mult(b, k.bb, sb))
                    elif (k.path in COLLECT or k.path in ("std::vec::from_elem", "alloc::vec::from_elem")) and dt.startswith("std::vec::Vec<std::collections::VecDeque<") \
                            and b.id == sb.id:
                        sz = A.size(b, k.args[0]) if k.path in COLLECT else A.val(b, k.args[1])
                        Q = _add(Q or (0, 0), _mul(sz, A.loop_mult(b, k.bb)))
            if Q is None and any(k.path in ("std::vec::Vec::new", "std::vec::Vec::with_capacity") and
                                 ((k.dest_t or {}).get("s", "") if isinstance(k.dest_t, dict) else "").startswith("std::vec::Vec<std::collections::VecDeque<")
                                 for b in bodies for k in b.calls):
                Q = (0, 0)          # the vector of per-input queues exists but nothing is ever put into it
            if Q is not None:
                r.instance((tr, "queues"), True, "per-input queues allocated %s" % _fmt(Q))
                if Q != R:
                    r.violate((tr, "queues allocated != observers registered"),
                              "%s allocates %s per-input queues for %s inputs: %s" % (tr.split("::")[-1], _fmt(Q), _fmt(R),
                              "the extra queue is never filled, so no row is ever complete and nothing is emitted" if (Q[0], Q[1]) > (R[0], R[1])
                              else "an input has no queue (index out of range on its first item)"), body=sb)
        except Und as e:
            r.instance((tr, "queues"), False, "not decided: %s" % e)
    if n < 3:
        r.error("ARITY: only %d operators register observers in a loop (merge, amb, zip expected)" % n)
    return r
