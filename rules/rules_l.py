"""Lock rules (DESIGN 5.5): L1 re-entrancy self-deadlock, L2 leaf locks, L4 producer polling."""
from core import RuleResult
from effects import *
from rules_h import STORED_ATOMS

# Slot classification of FunctionWrapper::call* receivers, by the struct field the receiver's
# provenance passes through (DESIGN 5.1 / 5.10).  Anything not listed is a USER slot.
TEARDOWN_FIELDS = {
    "fn_on_unsubscribe": ("TEARDOWN",),          # Observer: closures given to set_on_unsubscribe
    "unscribers": ("UNSCRIBER",),                # StreamController: FW::new in new_observer
    "on_finalize": ("ON_FINALIZE",),             # StreamController: set_on_finalize
    "on_unsubscribe": ("COUNT_DOWN",),           # Subject
    "on_subscribe": ("COUNT_UP",),               # Subject (connect closures: reach user code)
    "fn_unsubscribe": ("UNSUB",),                # Subscription (A-subscription: built by inner_subscribe)
    "fn_is_subscribed": ("ISSUB",),
}


class UserReach:
    """reaches_user(f): running body f may (synchronously) reach code held in a USER slot."""

    def __init__(self, P, E):
        self.P, self.E = P, E
        self.by_role = defaultdict(list)
        for cid, rs in E.roles.items():
            for (role, call, i) in rs:
                if cid in P.bodies:
                    self.by_role[role].append(P.bodies[cid])
        # unscribers entries: closures wrapped by FunctionWrapper::new inside new_observer
        no = P.body(SCTL + "::new_observer")
        self.unscribers = []
        if no is not None:
            for c in no.calls:
                if atom(c) == "fw_new":
                    cl = c.arg_closure(0)
                    if cl in P.bodies:
                        self.unscribers.append(P.bodies[cl])
        self.memo = {}
        self._compute()

    def receiver_field(self, b, operand):
        """struct-field names the receiver's provenance passes through (resolved through closure
        captures and inline iterator closures)."""
        names = set()
        for t in b.operand_prov(operand):
            for g in self.resolve(b, t):
                names |= {p for p in g[3] if isinstance(p, str)}
        return names

    def resolve(self, b, term, depth=0):
        out = set()
        for g in self.P.global_cell(b, term, through_helpers="add"):
            bid, rk, rd, path = g
            gb = self.P.bodies[bid]
            if rk == "param" and gb.kind == "closure" and depth < 4:
                # parameter of an inline iterator closure: element of the iterated container
                bound = False
                for (role, call, i) in self.E.roles.get(bid, []):
                    if role == "INLINE" and call.args:
                        for t2 in call.body.operand_prov(call.args[0]):
                            for g2 in self.resolve(call.body, t2, depth + 1):
                                out.add((g2[0], g2[1], g2[2], g2[3] + ("[]",) + path))
                                bound = True
                if bound:
                    continue
            out.add(g)
        return out

    def slot_targets(self, b, c):
        """For a FunctionWrapper::call*: ('user', None) or ('resolved', [bodies])."""
        fields = self.receiver_field(b, c.args[0])
        roles = []
        for f in fields:
            if f in TEARDOWN_FIELDS:
                roles += TEARDOWN_FIELDS[f]
        if not roles:
            return "user", []
        targets = []
        for r in roles:
            if r == "UNSCRIBER":
                targets += self.unscribers
            else:
                targets += self.by_role.get(r, [])
        return "resolved", targets

    def generic_fn_targets(self, b, c):
        """Fn::call on a generic parameter F of the enclosing fn g: the closures passed for F at
        g's crate call sites when g is not user-callable; otherwise user."""
        root = self.P.bodies.get(b.root)
        if root is None:
            return "user", []
        # user-callable: pub fn outside `internals` (Subscription::new: A-subscription)
        closed = (root.vis != "pub") or root.nid.startswith("internals::") or root.nid == SUBSCRIPTION + "::new"
        if not closed:
            return "user", []
        st = c.targs[0] if c.targs else {}
        pname = st.get("name") or st.get("s")
        targets = []
        for x in self.P.bodies.values():
            for k in x.calls:
                if k.path == root.nid:
                    for a in k.args:
                        cl = ty_closure(a.get("t"))
                        if cl and cl in self.P.bodies:
                            targets.append(self.P.bodies[cl])
                        elif ty_peel(a.get("t") or {}).get("k") == "param":
                            return "user", []
        return "resolved", targets

    def call_info(self, b, c):
        """('user'|'none'|'calls', [bodies])"""
        a = atom(c)
        if a in STORED_ATOMS:
            return "none", []
        if a == "fw_call":
            k, ts = self.slot_targets(b, c)
            return ("user", []) if k == "user" else ("calls", ts)
        if c.trait in ("std::ops::Fn", "std::ops::FnMut", "std::ops::FnOnce"):
            st = c.targs[0] if c.targs else {}
            if st.get("k") == "closure":
                t = self.P.bodies.get(st.get("def"))
                return ("calls", [t]) if t is not None else ("user", [])
            if st.get("k") == "param":
                k, ts = self.generic_fn_targets(b, c)
                return ("user", []) if k == "user" else ("calls", ts)
            if b.nid.startswith(FW + "::"):
                return "none", []      # the boundary itself is classified at FunctionWrapper::call* sites
            return "user", []
        if a == "post":
            cl = c.arg_closure(1)
            t = self.P.bodies.get(cl) if cl else None
            if c.path == AFQ + "::post":
                return "none", []      # queued for the worker thread
            return ("calls", [t]) if t is not None else ("user", [])
        if a == "spawn":
            return "none", []
        if c.trait and c.targs and c.targs[0].get("k") == "param":
            if c.trait in ("std::clone::Clone", "std::cmp::PartialEq", "std::cmp::PartialOrd", "std::ops::Add",
                           "std::iter::Iterator", "std::iter::IntoIterator", "std::fmt::Debug", "std::hash::Hash",
                           "std::cmp::Eq", "std::cmp::Ord", "std::default::Default"):
                return "none", []      # A-item
            if c.trait == ISCHED:
                return "none", []      # abort(); post handled above
            return "user", []
        ts = self.E.inline_targets(c)
        if ts:
            return "calls", ts
        if c.indirect:
            return "user", []
        return "none", []

    def _compute(self):
        P = self.P
        user = {}
        edges = {}
        for b in P.bodies.values():
            u = False
            es = []
            for c in b.calls:
                k, ts = self.call_info(b, c)
                if k == "user":
                    u = True
                elif k == "calls":
                    es += [t.id for t in ts]
            user[b.id] = u
            edges[b.id] = es
        changed = True
        while changed:
            changed = False
            for bid, es in edges.items():
                if not user[bid] and any(user.get(t, False) for t in es):
                    user[bid] = True
                    changed = True
        self.user = user

    def call_reaches_user(self, b, c):
        k, ts = self.call_info(b, c)
        if k == "user":
            return True
        if k == "calls":
            return any(self.user.get(t.id, False) for t in ts)
        return False


def _mode_conflict(held, wanted):
    if held in ("W", "M"):
        return True
    return wanted in ("W", "M")


def cell_identity(P, b, cell_prov):
    """Instance-level identity classes of a lock cell:
    ('field', ADT, field) for a struct field reached from a method's self,
    ('local', body id, alloc bb) for a cell allocated in a body (shared by that activation's closures)."""
    ids = set()
    for t in cell_prov:
        for (bid, rk, rd, path) in P.global_cell(b, t, through_helpers=True):
            gb = P.bodies[bid]
            if rk == "param" and path:
                adt = norm(ty_adt(gb.locals[rd]["ty"]) or "?")
                # descend through handle fields: self.data.queue -> (type of data, queue)
                ids.add(("field", adt, ".".join(path)))
            elif rk == "ret":
                ids.add(("local", bid, rd))
            else:
                ids.add(("unknown", bid, "%s:%s" % (rk, rd)))
    return ids


def l1_reentrancy(P, E, H, UR=None, c01_holds=True):
    r = RuleResult("L1", "no guard is live across a call that reaches user code while a conflicting "
                         "acquisition of the same cell is reachable on re-entry (same-thread self-deadlock)")
    UR = UR or UserReach(P, E)
    # index all acquisitions by identity
    acq_index = defaultdict(list)      # identity -> [(body, acq bb, mode)]
    total = 0
    for b in P.bodies.values():
        if b.id in P.absorbed:
            continue      # a helper's acquisitions are indexed where it is inlined (with the caller's cell)
        acqs, held, _ = b.guards()
        for bb, a in acqs.items():
            total += 1
            for ident in cell_identity(P, b, a["cell"]):
                acq_index[ident].append((b, bb, a["mode"]))
    pub_reach = _reenterable_methods(P)
    for b in P.bodies.values():
        if b.id in P.absorbed:
            continue      # helpers / directly called closures are analysed inlined into their callers
        acqs, held, _ = b.guards()
        if not acqs:
            continue
        for c in b.calls:
            hs = held.get(c.bb, set())
            if not hs:
                continue
            if c.path in TRANSPARENT or c.path in LOCK_ACQ or c.path.startswith("std::") or c.path.startswith("core::"):
                if not E.inline_targets(c):
                    continue
            if not UR.call_reaches_user(b, c):
                for a in hs:
                    r.instance((b.nid, "guard@%s" % _cellname(P, b, acqs[a]), c.path), False)
                continue
            for a in hs:
                acq = acqs[a]
                cname = _cellname(P, b, acq)
                idents = cell_identity(P, b, acq["cell"])
                if any(i[0] == "unknown" for i in idents):
                    r.error("unresolved cell for guard in %s (%s)" % (b.nid, cname))
                    continue
                conflicts = []
                for ident in idents:
                    for (ob, obb, om) in acq_index.get(ident, []):
                        if not _mode_conflict(acq["mode"], om):
                            continue
                        if ident[0] == "field" and not _field_site_reenterable(P, ob, pub_reach):
                            continue
                        conflicts.append((ob, obb, om))
                r.instance((b.nid, cname, c.path), True,
                           "%s guard of %s live across %s (reaches user code); %d conflicting site(s)"
                           % (acq["mode"], cname, c.path, len(conflicts)))
                if not conflicts:
                    continue
                if c01_holds and _l1_terminal_exempt(P, E, H, b, conflicts):
                    continue
                via = "across " + ("operator function" if atom(c) == "fw_call" else "emission")
                sname = H.stable_name(b)
                if (sname, via) in L1_EXEMPT:
                    continue
                if any(v.key == (sname, via) for v in r.violations):
                    continue
                r.violate((sname, via),
                          "%s guard of `%s` is held across %s, which reaches user code; re-entering the library "
                          "from that code reaches a conflicting acquisition of the same cell in %s: the thread "
                          "blocks on a lock it holds itself"
                          % (acq["mode"], cname, c.path, sorted({x[0].nid for x in conflicts})[:3]),
                          body=b, line=c.line)
    if total < 100:
        r.error("only %d lock acquisitions found (floor 100)" % total)
    return r


def _short(path):
    parts = path.split("::")
    return "::".join(parts[-2:])


# Reviewed exemptions (one named instance each, with the reason; DESIGN 5.9).
L1_EXEMPT = {
    # The conflicting site is the count-down closure (count == 0) while the count-up closure
    # (count == 1) is connecting.  With ReplaySubject the only observer's removal goes through
    # ReplaySubject::observable's `sbsc` cell, which is still None until subscribe() returns, so
    # the count cannot reach 0 during connect; the demonstration attempt
    # (from_iter(0..3).replay().observable().take(1)) returns.  ref_count (plain Subject) is NOT
    # exempt: there the same shape deadlocks.
    ("operators::replay::Replay/COUNT_UP", "across emission"),
}


def _cellname(P, b, acq):
    return "+".join(sorted(b.term_name(t) for t in acq["cell"]))


def _reenterable_methods(P):
    """Methods callable by user code on an instance it holds: pub methods, plus methods reached
    from those through calls whose receiver is rooted at self (same instance)."""
    reach = set()
    for b in P.bodies.values():
        if b.kind in ("assoc", "fn") and b.vis == "pub":
            reach.add(b.id)
    changed = True
    while changed:
        changed = False
        for b in list(P.bodies.values()):
            rootb = P.bodies.get(b.root)
            if rootb is None or rootb.id not in reach:
                continue
            for c in b.calls:
                if not c.local or not c.args:
                    continue
                tb = [x for x in P.by_nid.get(c.path, [])]
                if len(tb) != 1 or tb[0].id in reach:
                    continue
                # receiver rooted at self (directly or via captured clone)?
                rooted = False
                for t in b.operand_prov(c.args[0]):
                    for (bid, rk, rd, path) in P.global_cell(b, t):
                        gb = P.bodies[bid]
                        if rk == "param" and rd == 1 and gb.kind == "assoc":
                            rooted = True
                if rooted:
                    reach.add(tb[0].id)
                    changed = True
    return reach


def _field_site_reenterable(P, ob, pub_reach):
    rootb = P.bodies.get(ob.root)
    if rootb is None:
        return True
    if ob.kind == "closure":
        # a closure stored in a slot by a crate method: re-enterable iff the method that built it is
        return True
    return rootb.id in pub_reach


def _l1_terminal_exempt(P, E, H, holder, conflicts):
    """L1-terminal: the holder is a complete/error handler and every conflicting site lies in the
    next-handler (or closures it runs) of the same new_observer site, which is not in a loop."""
    hi, _ = H.context(holder)
    if hi is None or hi["role"] not in ("C", "E"):
        return False
    site = hi["site"]
    if site.body.in_cycle(site.bb):
        return False
    if any(r == "INLINE" or r.startswith("STD:") for r in E.role_of(site.body.id)):
        return False
    nh = hi["site"].arg_closure(1)
    nbody = P.bodies.get(nh) if nh else None
    inline_of_n = _inline_reach(P, E, nbody) if nbody is not None else set()
    for (ob, obb, om) in conflicts:
        if ob.id == holder.id:
            continue      # the holder re-entered: impossible after its own terminal slot was taken
        oi, _ = H.context(ob)
        if oi is not None and oi["site"] is site and oi["role"] == "N":
            continue
        if ob.id in inline_of_n and _callers(P, E, ob) <= (inline_of_n | {nbody.id}):
            continue
        return False
    return True


def _inline_reach(P, E, b):
    """bodies run synchronously by b (computed on the un-inlined bodies: with inlined views the
    calls to local closures are already spliced into b)."""
    out = set()
    st = [P.orig.get(b.id, b)]
    while st:
        x = st.pop()
        x = P.orig.get(x.id, x)
        for c in x.calls:
            if atom(c) in STORED_ATOMS or atom(c) == "post":
                continue
            for t in E.inline_targets(c):
                if t.id not in out:
                    out.add(t.id)
                    st.append(t)
    return out


def _callers(P, E, ob):
    out = set()
    for x in P.orig.values():
        for c in x.calls:
            if atom(c) in STORED_ATOMS:
                continue
            if any(t.id == ob.id for t in E.inline_targets(c)):
                out.add(x.id)
    return out


# --------------------------------------------------------------------------- L2

LEAF_FIELDS = {
    (FW, "inner"), (SCTL, "serial"), ("subjects::subject::Subject", "observers"),
    ("subjects::subject::Subject", "serial"),
}
NO_USER_FIELDS = {
    (SCTL, "unscribers"), (SCTL, "on_finalize"), (OBSERVER, "fn_on_unsubscribe"),
    ("subjects::subject::Subject", "on_unsubscribe"),
}


def l2_leaf_locks(P, E, UR=None):
    r = RuleResult("L2", "infrastructure locks are leaf locks: no user code and no further lock "
                         "acquisition under FunctionWrapper.inner / StreamController.serial / Subject.observers "
                         "/ Subject.serial; no user code under unscribers / on_finalize / fn_on_unsubscribe / on_unsubscribe")
    UR = UR or UserReach(P, E)
    acquires = _acquires_summary(P, E, UR)
    n = 0
    for b in P.bodies.values():
        if b.id in P.absorbed:
            continue
        acqs, held, _ = b.guards()
        for c in b.calls:
            for a in held.get(c.bb, set()):
                acq = acqs[a]
                for ident in cell_identity(P, b, acq["cell"]):
                    if ident[0] != "field":
                        continue
                    key = (ident[1], ident[2].split(".")[0])
                    if key in LEAF_FIELDS or key in NO_USER_FIELDS:
                        if c.path in LOCK_ACQ or c.path in TRANSPARENT:
                            continue
                        n += 1
                        user = UR.call_reaches_user(b, c)
                        r.instance((b.nid, "%s.%s" % key, c.path), True,
                                   "call under %s guard: user=%s" % (key[1], user))
                        if user:
                            r.violate((b.nid, "%s.%s" % (key[0].split("::")[-1], key[1]), "user code under guard"),
                                      "user code is reachable (via %s) while the %s guard is held" % (c.path, key[1]),
                                      body=b, line=c.line)
                        elif key in LEAF_FIELDS:
                            inner = set()
                            for t in E.inline_targets(c):
                                inner |= acquires.get(t.id, set())
                            if inner:
                                r.violate((b.nid, "%s.%s" % (key[0].split("::")[-1], key[1]), "nested acquisition"),
                                          "a further lock (%s) is acquired under the leaf lock %s" % (sorted(inner)[:3], key[1]),
                                          body=b, line=c.line)
    if n < 8:
        r.error("only %d calls under infrastructure guards found (floor 8)" % n)
    return r


def _acquires_summary(P, E, UR):
    acq = {}
    edges = {}
    for b in P.bodies.values():
        acqs, _, _ = b.guards()
        s = set()
        for bb, a in acqs.items():
            for ident in cell_identity(P, b, a["cell"]):
                s.add("%s:%s" % (ident[1] if ident[0] == "field" else "local", ident[2]))
        acq[b.id] = s
        es = []
        for c in b.calls:
            k, ts = UR.call_info(b, c)
            if k == "calls":
                es += [t.id for t in ts]
        edges[b.id] = es
    changed = True
    while changed:
        changed = False
        for bid, es in edges.items():
            for t in es:
                add = acq.get(t, set()) - acq[bid]
                if add:
                    acq[bid] |= add
                    changed = True
    return acq


# --------------------------------------------------------------------------- L4

EMIT_ATOMS = ("obs_next", "sink_next")


BOUNDED_ITERS = ("std::slice::Iter", "std::slice::IterMut", "std::vec::IntoIter", "std::collections::vec_deque::",
                 "std::collections::hash_map::", "std::collections::btree_map::", "std::option::",
                 "std::iter::Cloned<std::slice::Iter", "std::iter::Rev<std::slice::Iter")


def _loop_is_bounded_fanout(b, cyc, emit_call):
    """The cycle is driven by an iterator over an in-memory collection (bounded), or the
    emission target changes per iteration (fan-out over observers, not a producer)."""
    nexts = [c for c in b.calls if c.bb in cyc and c.path == "std::iter::Iterator::next"]
    if nexts and all(any((c.targs[0].get("s", "") if c.targs else "").startswith(p) or
                         ("<" + p) in (c.targs[0].get("s", "") if c.targs else "") for p in BOUNDED_ITERS) for c in nexts):
        return True
    # fan-out: the receiver of the emission derives from the element the iterator yielded
    for n_ in nexts:
        for t in b.operand_prov(emit_call.args[0]):
            if any(t2[:2] == ("ret", n_.bb) or (t2[0] == t[0] and t2[1] == t[1] and "[]" in t[2]) for t2 in b.operand_prov(n_.args[0])) \
                    or (t[0] == "ret" and t[1] == n_.bb):
                return True
    return False


def l4_producer_polling(P, E):
    r = RuleResult("L4", "every potentially unbounded loop that emits to one observer (Observer::next / sink_next) polls "
                         "is_subscribed() and leaves the loop on its false edge")
    n = 0
    for b in P.bodies.values():
        if b.id in P.absorbed:
            continue
        if b.nid.startswith(SCTL + "::") or b.nid.startswith(OBSERVER + "::"):
            continue
        emit_blocks = []
        for c in b.calls:
            if atom(c) in EMIT_ATOMS and b.in_cycle(c.bb):
                emit_blocks.append(c)
        for c in emit_blocks:
            fwd = b.reachable_from(c.bb)
            cyc = {x for x in fwd if c.bb in b.reachable_from(x)} | {c.bb}
            if _loop_is_bounded_fanout(b, cyc, c):
                r.instance((b.nid, "bounded/fan-out loop"), False, "emit at bb%d" % c.bb)
                continue
            n += 1
            polls = [x for x in b.calls if x.bb in cyc and atom(x) == "is_subscribed"]
            ok = False
            for p in polls:
                for tb in sorted(cyc):
                    t = b.blocks[tb]["term"]
                    if t["k"] != "switch" or t["discr"]["k"] not in ("copy", "move"):
                        continue
                    dp = b.operand_prov(t["discr"])
                    if not any(rk == "ret" and rd == p.bb for (rk, rd, _) in dp) and not _via_not(b, t["discr"], p):
                        continue
                    succs = [x for _, x in t["targets"]] + [t["otherwise"]]
                    if any(s_ not in cyc for s_ in succs):
                        ok = True
            r.instance((b.nid, "emit loop"), True, "emit at bb%d in cycle of %d blocks, polls %s" % (c.bb, len(cyc), [p.bb for p in polls]))
            if not ok:
                r.violate((b.nid, "emitting loop without is_subscribed poll"),
                          "a potentially unbounded loop emits items without polling is_subscribed() (or the poll cannot leave "
                          "the loop): the producer spins on a subscription that has ended", body=b, line=c.line)
    # run-to-exhaustion iterator consumers (for_each, fold, ..) whose closure emits: such a loop has no exit at
    # all, so it is acceptable only over an in-memory collection (bounded) or behind an adapter that can end
    # the iteration (take_while, map_while, take, scan)
    DRIVERS = {"for_each", "fold", "try_for_each", "try_fold", "count", "last", "sum", "product", "collect", "max", "min",
               "max_by", "min_by", "max_by_key", "min_by_key", "reduce", "all", "any", "find", "position", "for_each_concurrent"}
    for b in P.bodies.values():
        if b.id in P.absorbed or b.nid.startswith(SCTL + "::") or b.nid.startswith(OBSERVER + "::"):
            continue
        for c in b.calls:
            if not c.path.startswith("std::iter::Iterator::") or c.path.split("::")[-1] not in DRIVERS or not c.args:
                continue
            emits = False
            for t_ in E.inline_targets(c):
                if E.may(t_) & set(EMIT_ATOMS):
                    emits = True
            # closures anywhere in the adapter chain (filter(|..| ..).map(..)) count too: look at the receiver's type
            rty = c.args[0].get("t") or {}
            rs = rty.get("s", "")
            if not emits:
                continue

            def base_unbounded(t, depth=0):
                """peel iterator adapters (Filter<I, F>, Map<I, F>, Cloned<I>, ..) down to the underlying iterator:
                a type parameter / opaque type / RangeFrom / Repeat / Cycle .. may be unbounded; a std collection's
                iterator or a Range is not"""
                t = ty_peel(t)
                if not isinstance(t, dict) or depth > 8:
                    return True
                if t.get("k") in ("param", "alias", "opaque", "dyn"):
                    return True
                if t.get("k") != "adt":
                    return False
                path = norm(t.get("path") or "")
                if path.startswith("std::iter::") or path.startswith("core::iter::"):
                    nm = path.split("::")[-1]
                    if nm in ("Repeat", "RepeatWith", "Cycle", "Successors", "FromFn"):
                        return True
                    if nm in ("Once", "Empty", "OnceWith"):
                        return False
                    args = t.get("args") or []
                    return base_unbounded(args[0], depth + 1) if args else True
                if path in ("std::ops::RangeFrom", "core::ops::RangeFrom"):
                    return True
                return False
            unbounded = base_unbounded(rty)
            stoppable = any(x in rs for x in ("TakeWhile<", "MapWhile<", "Take<", "Scan<")) or c.path.split("::")[-1] in (
                "try_for_each", "try_fold", "all", "any", "find", "position")
            r.instance((b.nid, "iterator-driven emit"), True, "%s over %s" % (c.path.split("::")[-1], rs[:80]))
            if unbounded and not stoppable:
                r.violate((b.nid, "emitting iterator consumer cannot stop"),
                          "items are emitted from inside Iterator::%s over a caller-supplied iterator (%s): the iteration runs to "
                          "exhaustion whatever the subscriber does - with an unbounded iterator the producer never returns after "
                          "the subscription ended" % (c.path.split("::")[-1], rs[:80]), body=b, line=c.line)
    if n < 4:
        r.error("only %d unbounded emitting loops found (floor 4)" % n)
    return r


def _via_not(b, discr, poll):
    """discr = !poll_result (a `Not` of the poll's destination)"""
    l = discr["p"][0]
    for d in b.defs.get(l, []):
        if d[0] == "assign" and d[1]["rv"]["k"] == "unop" and d[1]["rv"]["op"] == "Not":
            if any(rk == "ret" and rd == poll.bb for (rk, rd, _) in b.operand_prov(d[1]["rv"]["a"])):
                return True
    return False


def _stays_in_cycle(b, s, cyc, emit_bb):
    """does control entering s necessarily remain able to reach the emit again? (exit = cannot)"""
    if s not in cyc:
        return False
    return True
