"""Program model over the rxlint facts: bodies, CFG, provenance, closure roles,
guard liveness, call graph.  Pure functions of the facts; no source text is read.
"""
import re
from collections import defaultdict, deque

# --------------------------------------------------------------------------- names

_GEN = re.compile(r"::<[^<>]*>")
_GEN2 = re.compile(r"(?<=[A-Za-z0-9_])<[^<>]*>")


def norm(path):
    """Strip generic-argument segments: a::B::<'a, T>::f -> a::B::f (nested too)."""
    if path is None:
        return None
    prev = None
    while prev != path:
        prev = path
        path = _GEN.sub("", path)
        path = _GEN2.sub("", path)
    return path


SCTL = "internals::stream_controller::StreamController"
OBSERVER = "observer::Observer"
OBSERVABLE = "observable::Observable"
FW = "internals::function_wrapper::FunctionWrapper"
SUBSCRIPTION = "subscription::Subscription"
SUBJECTS = (
    "subjects::subject::Subject",
    "subjects::behavior_subject::BehaviorSubject",
    "subjects::replay_subject::ReplaySubject",
    "subjects::async_subject::AsyncSubject",
)

LOCK_ACQ = {
    "std::sync::RwLock::read": "R",
    "std::sync::RwLock::write": "W",
    "std::sync::Mutex::lock": "M",
    "std::sync::poison::RwLock::read": "R",
    "std::sync::poison::RwLock::write": "W",
    "std::sync::poison::Mutex::lock": "M",
    "std::sync::RwLock::try_read": "R",
    "std::sync::RwLock::try_write": "W",
    "std::sync::Mutex::try_lock": "M",
}
CONDVAR_WAIT = {
    "std::sync::Condvar::wait",
    "std::sync::Condvar::wait_while",
    "std::sync::Condvar::wait_timeout",
    "std::sync::Condvar::wait_timeout_while",
    "std::sync::poison::Condvar::wait",
    "std::sync::poison::Condvar::wait_while",
}

# Calls through which "the same object" flows from argument 0 to the result.
TRANSPARENT = {
    "std::ops::Deref::deref",
    "std::ops::DerefMut::deref_mut",
    "std::clone::Clone::clone",
    "std::result::Result::unwrap",
    "std::result::Result::expect",
    "std::option::Option::unwrap",
    "std::option::Option::expect",
    "std::option::Option::as_ref",
    "std::option::Option::as_mut",
    "std::borrow::Borrow::borrow",
    "std::convert::AsRef::as_ref",
    "std::convert::Into::into",
    "std::convert::From::from",
    "std::borrow::ToOwned::to_owned",
    "std::option::Option::cloned",
    "std::option::Option::take",
}

# Container accessors: the result is an element of (or a view into) argument 0.
ELEMENT_OF = {
    "std::collections::HashMap::iter", "std::collections::HashMap::get",
    "std::collections::HashMap::get_mut", "std::collections::HashMap::remove",
    "std::collections::HashMap::values", "std::collections::HashMap::into_iter",
    "std::collections::VecDeque::iter", "std::collections::VecDeque::pop_front",
    "std::collections::VecDeque::pop_back", "std::collections::VecDeque::front",
    "std::collections::VecDeque::get", "std::collections::VecDeque::into_iter",
    "std::vec::Vec::pop", "std::vec::Vec::iter", "core::slice::iter", "core::slice::get",
    "core::slice::iter_mut", "core::slice::get_mut", "core::slice::first", "core::slice::last",
    "std::iter::IntoIterator::into_iter", "std::iter::Iterator::next",
    "std::iter::Iterator::cloned", "std::iter::Iterator::rev",
    "std::ops::Index::index", "std::ops::IndexMut::index_mut",
    "std::collections::VecDeque::get_mut", "std::collections::VecDeque::front_mut", "std::collections::VecDeque::back",
    "std::collections::HashMap::values", "std::collections::HashMap::values_mut",
}


ATOMIC_PREFIX = "std::sync::atomic::Atomic"
ATOMIC_RMW = {"swap", "fetch_add", "fetch_sub", "fetch_or", "fetch_and", "fetch_xor", "fetch_nand", "fetch_max",
              "fetch_min", "compare_exchange", "compare_exchange_weak", "fetch_update", "compare_and_swap"}


def atomic_op(path):
    """'RMW' | 'LOAD' | 'STORE' for a call on a std atomic, else None"""
    if not path or not path.startswith(ATOMIC_PREFIX):
        return None
    name = path.split("::")[-1]
    if name in ATOMIC_RMW:
        return "RMW"
    if name == "load":
        return "LOAD"
    if name == "store":
        return "STORE"
    return None


def is_guard_type(tydesc):
    s = tydesc.get("s", "")
    return ("RwLockReadGuard" in s or "RwLockWriteGuard" in s or "MutexGuard" in s)


def ty_peel(t):
    while t and t.get("k") in ("ref", "ptr"):
        t = t["inner"]
    return t


def ty_closure(t):
    t = ty_peel(t)
    if t and t.get("k") == "closure":
        return t["def"]
    return None


def ty_adt(t):
    t = ty_peel(t)
    if t and t.get("k") == "adt":
        return t["path"]
    return None


# --------------------------------------------------------------------------- bodies


class Call:
    __slots__ = ("body", "bb", "path", "raw", "inst", "inst_local", "inst_closure", "args",
                 "dest", "target", "line", "name", "trait", "targs", "local", "exp", "indirect",
                 "dest_t", "impl_self")

    def __repr__(self):
        return "Call(%s@bb%d L%d)" % (self.path, self.bb, self.line)

    def arg_closure(self, i):
        if i < len(self.args):
            return ty_closure(self.args[i].get("t"))
        return None

    def key(self):
        return "%s@%s" % (self.path, self.body.id)


class Body:
    def __init__(self, raw, facts):
        self.raw = raw
        self.facts = facts
        self.id = raw["id"]
        self.nid = norm(raw["id"])
        self.kind = raw["kind"]
        self.file = raw["file"]
        self.line = raw["line"]
        self.argc = raw["argc"]
        self.locals = raw["locals"]
        self.blocks = raw["blocks"]
        self.upvars = raw.get("upvars", [])
        self.parent_id = raw["parent"]
        self.root = raw["root"]
        self.vis = raw.get("vis")
        self.name = raw.get("name")
        self.impl_self = raw.get("impl_self")
        self.impl_trait = raw.get("impl_trait")
        self._prov = {}
        self._build_cfg()
        self._build_defs()
        self._calls = None
        self._guards = None

    # ---- cfg (cleanup blocks and unwind edges dropped)
    def _build_cfg(self):
        self.succ = {}
        for i, bb in enumerate(self.blocks):
            if bb["cleanup"]:
                continue
            t = bb["term"]
            k = t["k"]
            out = []
            if k in ("goto", "drop", "assert", "falseedge"):
                out = [t["target"]]
            elif k == "call":
                if t["target"] is not None:
                    out = [t["target"]]
            elif k == "switch":
                out = [b for _, b in t["targets"]] + [t["otherwise"]]
            out = [b for b in out if not self.blocks[b]["cleanup"]]
            # de-dup, keep order
            seen = []
            for b in out:
                if b not in seen:
                    seen.append(b)
            self.succ[i] = seen
        self.pred = defaultdict(list)
        for a, bs in self.succ.items():
            for b in bs:
                self.pred[b].append(a)
        # reachable from entry
        self.reach = set()
        dq = deque([0])
        while dq:
            a = dq.popleft()
            if a in self.reach or a not in self.succ:
                continue
            self.reach.add(a)
            dq.extend(self.succ[a])
        self.returns = [i for i in self.reach if self.blocks[i]["term"]["k"] == "return"]

    def _build_defs(self):
        self.defs = defaultdict(list)  # local -> list of ("assign", rv, bb, idx) | ("call", term, bb)
        for i in sorted(self.reach):
            bb = self.blocks[i]
            for j, s in enumerate(bb["stmts"]):
                if s["k"] == "assign":
                    self.defs[s["lhs"][0]].append(("assign", s, i, j))
            t = bb["term"]
            if t["k"] == "call":
                self.defs[t["dest"][0]].append(("call", t, i, None))

    # ---- calls
    @property
    def calls(self):
        if self._calls is None:
            self._calls = []
            for i in sorted(self.reach):
                t = self.blocks[i]["term"]
                if t["k"] != "call":
                    continue
                c = Call()
                c.body = self
                c.bb = i
                f = t["fn"]
                c.raw = t
                c.indirect = f["k"] != "def"
                c.path = norm(f.get("path")) if not c.indirect else "<indirect>"
                inst = f.get("inst")
                c.inst = norm(inst["path"]) if inst else None
                c.inst_local = bool(inst and inst.get("local"))
                c.inst_closure = bool(inst and inst.get("closure"))
                c.args = t["args"]
                c.dest = t["dest"]
                c.dest_t = t.get("dest_t")
                c.target = t["target"]
                c.line = t["line"]
                c.exp = t.get("exp", False)
                c.name = f.get("name")
                c.trait = f.get("trait")
                c.targs = f.get("targs", [])
                c.local = f.get("local", False)
                c.impl_self = f.get("impl_self")
                self._calls.append(c)
            self._call_at = {c.bb: c for c in self._calls}
        return self._calls

    def call_at(self, bb):
        self.calls
        return self._call_at.get(bb)

    # ---- provenance
    # A term is (rootkind, rootdata, path):  ("param", n) ("upvar", k) ("ret", bb) ("agg", (bb, idx))
    # ("const", s) ("unk", why).  path = tuple of field names; deref is not recorded.
    def local_name(self, l):
        return self.locals[l].get("name")

    def _proj_path(self, proj):
        out = []
        ren = self.facts.get("_field_renames_q") or {}
        for e in proj:
            if e == "*":
                continue
            if e.startswith("."):
                nm = e.split(":", 1)[1] if ":" in e else e[1:]
                if "@" in nm:
                    nm, adt = nm.split("@", 1)
                    if ren:
                        nm = ren.get((norm(adt), nm), nm)
                out.append(nm)
            elif e.startswith("@"):
                out.append(e)
            else:
                out.append(e)
        return tuple(out)

    def place_prov(self, place, _stack=None):
        l = place[0]
        proj = place[1:]
        # closure environment access
        if self.kind == "closure" and l == 1 and proj:
            p = [e for e in proj if e != "*"]
            if p and p[0].startswith("."):
                k = int(p[0][1:].split(":")[0])
                rest = self._proj_path(p[1:])
                return frozenset([("upvar", k, rest)])
        base = self.local_prov(l, _stack)
        path = self._proj_path(proj)
        if not path:
            return base
        out = set()
        for (rk, rd, pp) in base:
            out |= self._through_agg((rk, rd, pp + path), _stack)
        return frozenset(out)

    def _through_agg(self, term, _stack=None, depth=0):
        """Resolve a field projection of a locally built aggregate to the operand stored there:
        (agg Some(x))@Some.0 -> x ; (tuple (a, b)).1 -> b."""
        rk, rd, path = term
        if rk != "agg" or not path or depth > 6:
            return {term}
        st = self.blocks[rd[0]]["stmts"][rd[1]]
        rv = st["rv"]
        p = list(path)
        if rv["ak"] == "adt" and p and p[0].startswith("@"):
            if p[0][1:] != rv.get("variant"):
                return {term}
            p = p[1:]
        if not p:
            return {term}
        idx = None
        if rv["ak"] in ("adt", "tuple", "closure"):
            if p[0].isdigit():
                idx = int(p[0])
            elif rv["ak"] == "adt":
                idx = self._field_index(rv["def"], rv.get("variant"), p[0])
        if idx is None or idx >= len(rv["ops"]):
            return {term}
        out = set()
        for (k2, d2, p2) in self.operand_prov(rv["ops"][idx], _stack):
            out |= self._through_agg((k2, d2, p2 + tuple(p[1:])), _stack, depth + 1)
        return out

    def _field_index(self, adt_path, variant, fname):
        for a in self.facts["adts"]:
            if a["path"] == adt_path:
                for v in a["variants"]:
                    if variant is None or v["name"] == variant:
                        for i, f in enumerate(v["fields"]):
                            if f["name"] == fname:
                                return i
        return None

    def operand_prov(self, op, _stack=None):
        if op["k"] in ("copy", "move"):
            return self.place_prov(op["p"], _stack)
        if op["k"] == "const":
            return frozenset([("const", op.get("fn") or op.get("s"), ())])
        return frozenset([("unk", "operand", ())])

    def local_prov(self, l, _stack=None):
        if l in self._prov:
            return self._prov[l]
        if _stack is None:
            _stack = set()
        if l in _stack:
            return frozenset()
        _stack = _stack | {l}
        if 1 <= l <= self.argc:
            if self.kind == "closure" and l == 1:
                res = frozenset([("env", 0, ())])
            else:
                res = frozenset([("param", l, ())])
            # parameters can be re-assigned but that is not an idiom of this crate
            self._prov[l] = res
            return res
        out = set()
        for d in self.defs.get(l, []):
            if d[0] == "assign":
                s = d[1]
                if len(s["lhs"]) > 1:
                    # partial write into the local (field / deref store): not a definition of
                    # the local's identity
                    continue
                rv = s["rv"]
                k = rv["k"]
                if k == "use":
                    out |= self.operand_prov(rv["op"], _stack)
                elif k in ("ref", "rawptr"):
                    out |= self.place_prov(rv["p"], _stack)
                elif k == "cast":
                    out |= self.operand_prov(rv["op"], _stack)
                elif k == "agg":
                    out.add(("agg", (d[2], d[3]), ()))
                elif k == "discr":
                    out.add(("discr", (d[2], d[3]), ()))
                else:
                    out.add(("val", (d[2], d[3]), ()))
            else:
                t = d[1]
                if len(t["dest"]) > 1:
                    continue
                f = t["fn"]
                p = norm(f.get("path")) if f["k"] == "def" else None
                if (p in TRANSPARENT or p in LOCK_ACQ or atomic_op(p) in ("LOAD", "RMW")) and t["args"]:
                    # a guard denotes the cell it locks (guard liveness is tracked separately)
                    out |= self.operand_prov(t["args"][0], _stack)
                elif p in CONDVAR_WAIT and len(t["args"]) > 1:
                    # the guard handed to the wait comes back
                    out |= self.operand_prov(t["args"][1], _stack)
                elif p in ELEMENT_OF and t["args"]:
                    out |= frozenset((rk, rd, pp + ("[]",))
                                     for (rk, rd, pp) in self.operand_prov(t["args"][0], _stack))
                else:
                    out.add(("ret", d[2], ()))
        if not out:
            out.add(("unk", "nodef:%d" % l, ()))
        res = frozenset(out)
        if len(_stack) == 1:
            self._prov[l] = res
        return res

    def value_sources(self, prov):
        """Leaves feeding a computed value: ('val', (bb, i)) terms (binary / unary / checked
        arithmetic, len, ..) are expanded into the provenance of their operands, transitively."""
        out, seen, work = set(), set(), list(prov)
        while work:
            t = work.pop()
            if t in seen:
                continue
            seen.add(t)
            if t[0] != "val":
                out.add(t)
                continue
            rv = self.blocks[t[1][0]]["stmts"][t[1][1]]["rv"]
            ops = [rv[k] for k in ("a", "b", "op") if isinstance(rv.get(k), dict)] + list(rv.get("ops", []))
            if not ops and "p" in rv:
                work.extend(self.place_prov(rv["p"]))
            if not ops and "p" not in rv:
                out.add(t)
            for o in ops:
                work.extend(self.operand_prov(o))
        return frozenset(out)

    def arith_steps(self, rv):
        """[(op, [integer constants among its operands])] for the binary operations on the value chain of an rvalue (the stored
        value of `*counter = ..`): `*x += 1` gives [("AddWithOverflow", [1])]"""
        out, seen = [], set()
        work = []
        if rv.get("k") == "binop":
            out.append((rv["op"], [int(o["int"]) for o in (rv["a"], rv["b"]) if o["k"] == "const" and "int" in o]))
        for o in [rv[k] for k in ("a", "b", "op") if isinstance(rv.get(k), dict)] + list(rv.get("ops", [])):
            work.extend(self.operand_prov(o))
        while work:
            t = work.pop()
            if t in seen:
                continue
            seen.add(t)
            if t[0] != "val":
                continue
            r2 = self.blocks[t[1][0]]["stmts"][t[1][1]]["rv"]
            if r2.get("k") == "binop":
                out.append((r2["op"], [int(o["int"]) for o in (r2["a"], r2["b"]) if o["k"] == "const" and "int" in o]))
            for o in [r2[k] for k in ("a", "b", "op") if isinstance(r2.get(k), dict)] + list(r2.get("ops", [])):
                work.extend(self.operand_prov(o))
            if "p" in r2 and not any(isinstance(r2.get(k), dict) for k in ("a", "b", "op")):
                work.extend(self.place_prov(r2["p"]))
        return out

    def advances(self, rv):
        """the stored value is the old one plus / minus a non-zero constant"""
        return any(op.startswith(("Add", "Sub")) and any(c != 0 for c in cs) for (op, cs) in self.arith_steps(rv))

    def term_name(self, term):
        """Human-readable, line-free name of a provenance term."""
        rk, rd, path = term
        if rk == "param":
            base = self.local_name(rd) or ("param%d" % rd)
        elif rk == "upvar":
            up = self.upvars[rd] if rd < len(self.upvars) else {}
            base = "upvar:" + (up.get("name") or str(rd))
        elif rk == "ret":
            c = self.call_at(rd)
            nm = None
            # a user variable that receives this call's result (possibly via unwrap)
            dl = c.dest[0] if c else None
            nm = self.local_name(dl) if dl is not None else None
            base = "alloc:%s" % nm if nm else "ret:%s" % (c.path if c else "?")
        elif rk == "agg":
            base = "agg"
        elif rk == "env":
            base = "env"
        else:
            base = "%s" % rk
        return base + "".join("." + p for p in path)

    # ---- dominators (forward, non-cleanup graph)
    def dominators(self):
        if hasattr(self, "_dom"):
            return self._dom
        nodes = sorted(self.reach)
        dom = {n: set(nodes) for n in nodes}
        dom[0] = {0}
        changed = True
        while changed:
            changed = False
            for n in nodes:
                if n == 0:
                    continue
                ps = [p for p in self.pred[n] if p in self.reach]
                if not ps:
                    continue
                new = set.intersection(*(dom[p] for p in ps)) | {n}
                if new != dom[n]:
                    dom[n] = new
                    changed = True
        self._dom = dom
        return dom

    def reachable_from(self, start, avoid=()):
        """Blocks reachable from the *successors* of `start` (or from start itself if
        start is a list of entry blocks), never entering a block in `avoid`."""
        avoid = set(avoid)
        if isinstance(start, int):
            frontier = list(self.succ.get(start, []))
        else:
            frontier = list(start)
        seen = set()
        dq = deque(frontier)
        while dq:
            a = dq.popleft()
            if a in seen or a in avoid:
                continue
            seen.add(a)
            dq.extend(self.succ.get(a, []))
        return seen

    def in_cycle(self, bb):
        return bb in self.reachable_from(bb)

    # ---- accesses to shared cells: lock acquisitions and atomic operations
    def accesses(self):
        """[dict(bb, kind in R|W|M|RMW|LOAD|STORE, cell=prov set, line)]"""
        acqs, _, _ = self.guards()
        out = [dict(bb=bb, kind=a["mode"], cell=a["cell"], line=a["line"]) for bb, a in acqs.items()]
        for c in self.calls:
            k = atomic_op(c.path)
            if k and c.args:
                out.append(dict(bb=c.bb, kind=k, cell=self.operand_prov(c.args[0]), line=c.line))
        return out

    # ---- guard liveness: forward may-analysis
    # state: frozenset of (holder_local, acq_bb)
    def guards(self):
        """Returns (acqs, held_at): acqs = {acq_bb: dict(cell=prov set, mode, line)};
        held_at = {bb: set(acq_bb)} = guards live when the terminator of bb executes
        (for a call: while the callee runs; the guard acquired by that very call excluded,
        a guard moved *into* the call excluded)."""
        if self._guards is not None:
            return self._guards
        acqs = {}
        for c in self.calls:
            if c.path in LOCK_ACQ and c.args:
                acqs[c.bb] = dict(cell=self.operand_prov(c.args[0]), mode=LOCK_ACQ[c.path],
                                  line=c.line, call=c)
        held_at = {}
        if not acqs and not any(c.path in CONDVAR_WAIT for c in self.calls):
            self._guards = (acqs, held_at, {})
            return self._guards
        IN = defaultdict(frozenset)
        work = deque([0])
        seen_in = {}
        stmt_held = {}
        while work:
            b = work.popleft()
            st = set(IN[b])
            bb = self.blocks[b]
            per_stmt = []
            for s in bb["stmts"]:
                per_stmt.append(frozenset(a for (_, a) in st))
                if s["k"] == "assign":
                    rv = s["rv"]
                    lhs = s["lhs"]
                    moved = []
                    if rv["k"] == "use" and rv["op"]["k"] == "move":
                        moved = [rv["op"]["p"]]
                    elif rv["k"] == "agg":
                        moved = [o["p"] for o in rv["ops"] if o["k"] == "move"]
                    for mp in moved:
                        src = mp[0]
                        hit = [(h, a) for (h, a) in st if h == src]
                        for (h, a) in hit:
                            st.discard((h, a))
                            st.add((lhs[0], a))
                elif s["k"] == "dead":
                    for (h, a) in list(st):
                        if h == s["l"]:
                            st.discard((h, a))
            stmt_held[b] = per_stmt
            t = bb["term"]
            k = t["k"]
            if k == "call":
                moved_in = set()
                for a in t["args"]:
                    if a["k"] == "move" and len(a["p"]) == 1:
                        moved_in.add(a["p"][0])
                moved_guards = [(h, a) for (h, a) in st if h in moved_in]
                for x in moved_guards:
                    st.discard(x)
                held_at[b] = held_at.get(b, set()) | {a for (_, a) in st}
                c = self.call_at(b)
                dest = t["dest"][0]
                if b in acqs:
                    st.add((dest, b))
                elif moved_guards and (c.path in TRANSPARENT or c.path in CONDVAR_WAIT
                                       or is_guard_type(c.dest_t or {})):
                    for (_, a) in moved_guards:
                        st.add((dest, a))
                # else: guard consumed by the callee (mem::drop, ..) -> released
            elif k == "drop":
                held_at[b] = held_at.get(b, set()) | {a for (_, a) in st}
                p = t["p"]
                if len(p) == 1:
                    for (h, a) in list(st):
                        if h == p[0]:
                            st.discard((h, a))
            else:
                held_at[b] = held_at.get(b, set()) | {a for (_, a) in st}
            out = frozenset(st)
            for s_ in self.succ.get(b, []):
                new = IN[s_] | out
                if s_ not in seen_in or new != IN[s_]:
                    IN[s_] = new
                    seen_in[s_] = True
                    work.append(s_)
        self._guards = (acqs, held_at, stmt_held)
        return self._guards


# --------------------------------------------------------------------------- program


class Program:
    def __init__(self, facts, no_inline=None):
        """no_inline: set of normalised callee paths that must stay calls (the slot-API vocabulary);
        when given, every body is replaced by its inlined view (inline.py) and the un-inlined
        bodies stay available as self.orig."""
        self.facts = facts
        self.bodies = {}
        self.orig = {}
        raws = facts["bodies"]
        if no_inline is not None:
            from inline import Inliner
            inl = Inliner(raws, norm, no_inline)
            for raw in raws:
                self.orig[raw["id"]] = Body(raw, facts)
            raws = [inl.inline(raw) for raw in raws]
        for raw in raws:
            b = Body(raw, facts)
            self.bodies[b.id] = b
        if not self.orig:
            self.orig = self.bodies
        # bodies spliced into their callers (private helpers, directly called local closures):
        # their standalone copy is not an analysis subject of site-based rules
        spl = set()
        for b in self.bodies.values():
            spl |= set(b.raw.get("inlined", []))
        self.absorbed = set()
        for b in self.bodies.values():
            if b.nid in spl and b.vis != "pub" and not b.impl_trait:
                self.absorbed.add(b.id)
        self.by_nid = defaultdict(list)
        for b in self.bodies.values():
            self.by_nid[b.nid].append(b)
        self.adts = {norm(a["path"]): a for a in facts["adts"]}
        self._index_closures()

    def const_init(self, op):
        """what a named-constant operand (`const NONE: Option<T> = None;`) evaluates to, read off the constant's own body:
        ("bool", v) / ("int", n) / ("variant", adt, name) / None"""
        cdef = op.get("cdef") if isinstance(op, dict) else None
        if not cdef:
            return None
        cb = self.bodies.get(cdef)
        if cb is None or cb.kind != "const":
            return None
        ds = [d for d in cb.defs.get(0, []) if d[0] == "assign" and len(d[1]["lhs"]) == 1]
        if len(ds) != 1:
            return None
        rv = ds[0][1]["rv"]
        for _ in range(4):
            if rv["k"] == "use" and rv["op"]["k"] == "const":
                o = rv["op"]
                if o.get("s") in ("true", "false"):
                    return ("bool", o["s"] == "true")
                if "int" in o:
                    return ("int", int(o["int"]))
                return self.const_init(o)
            if rv["k"] == "use" and rv["op"]["k"] in ("copy", "move") and len(rv["op"]["p"]) == 1:
                d2 = [d for d in cb.defs.get(rv["op"]["p"][0], []) if d[0] == "assign" and len(d[1]["lhs"]) == 1]
                if len(d2) != 1:
                    return None
                rv = d2[0][1]["rv"]
                continue
            if rv["k"] == "agg" and rv.get("ak") == "adt":
                return ("variant", norm(rv.get("def") or ""), rv.get("variant"))
            return None
        return None

    def body(self, nid):
        """Unique body with the given normalised id; None if absent; error if ambiguous."""
        bs = self.by_nid.get(nid, [])
        if len(bs) == 1:
            return bs[0]
        if not bs:
            return None
        raise KeyError("ambiguous body id %s" % nid)

    def methods_of(self, adt_path):
        out = []
        for b in self.bodies.values():
            if b.kind == "assoc" and b.impl_self and norm(ty_adt(b.impl_self) or "") == adt_path:
                out.append(b)
        return out

    def children(self, b):
        return [c for c in self.bodies.values() if c.kind == "closure" and c.parent_id == b.id]

    def descendants(self, b):
        out = []
        st = [b]
        while st:
            x = st.pop()
            for c in self.children(x):
                out.append(c)
                st.append(c)
        return out

    # ---- closure creation sites: closure id -> (parent body, bb, stmt idx, upvar operands)
    def _index_closures(self):
        """closure id -> creation site, taken from the closure's lexical parent body (an inlined
        copy of the parent inside another body is not a second creation site)."""
        self.created = {}
        parent_of = {raw["id"]: raw["parent"] for raw in self.facts["bodies"] if raw["kind"] == "closure"}
        for b in self.bodies.values():
            for i in sorted(b.reach):
                for j, s in enumerate(b.blocks[i]["stmts"]):
                    if s["k"] == "assign" and s["rv"]["k"] == "agg" and s["rv"]["ak"] == "closure":
                        cid = s["rv"]["def"]
                        lexical = parent_of.get(cid) == b.id
                        if cid in self.created and not lexical:
                            continue
                        if cid in self.created and self.created[cid][6] and lexical and not self.blocks_inlined(b, i):
                            pass
                        if cid not in self.created or (lexical and (not self.created[cid][6] or not self.blocks_inlined(b, i))):
                            self.created[cid] = (b, i, j, s["rv"]["ops"], s["lhs"][0], s["line"], lexical)

    @staticmethod
    def blocks_inlined(b, i):
        return bool(b.blocks[i].get("inl"))

    def upvar_origin(self, body, k):
        """Provenance (in the parent body) of upvar k of closure `body`."""
        cr = self.created.get(body.id)
        if not cr:
            return None, frozenset([("unk", "nocreate", ())])
        parent, bb, j, ops = cr[0], cr[1], cr[2], cr[3]
        if k >= len(ops):
            return parent, frozenset([("unk", "upvar-index", ())])
        return parent, parent.operand_prov(ops[k])

    def callers_of(self, fnbody):
        """[(caller body (analysis view), Call)] for a crate-local fn, from the un-inlined bodies."""
        if not hasattr(self, "_callers_idx"):
            idx = defaultdict(list)
            for x in self.orig.values():
                for c in x.calls:
                    if not c.indirect and c.local:
                        idx[c.path].append((self.bodies.get(x.id, x), c))
            self._callers_idx = idx
        return self._callers_idx.get(fnbody.nid, [])

    def global_cell(self, body, term, through_helpers=False):
        """Resolve a provenance term through closure creation sites up to its allocation
        root or a function parameter; with through_helpers, a parameter of a private helper that is
        inlined into its callers is replaced by what the callers pass.  Returns a set of
        (body_id, rootkind, rootdata, path)."""
        out = set()
        seen = set()
        st = [(body, term)]
        while st:
            b, t = st.pop()
            key = (b.id, t)
            if key in seen or len(seen) > 400:
                continue
            seen.add(key)
            rk, rd, path = t
            if through_helpers and rk == "param" and b.id in self.absorbed and b.kind in ("fn", "assoc"):
                cs = self.callers_of(b)
                if cs and all(rd - 1 < len(c.args) for (_, c) in cs):
                    for (cb, c) in cs:
                        for t2 in cb.operand_prov(c.args[rd - 1]):
                            st.append((cb, (t2[0], t2[1], t2[2] + path)))
                    if through_helpers == "add":
                        out.add((b.id, rk, rd, path))     # keep the helper-side term too (field names)
                    continue
            if rk == "upvar":
                parent, provs = self.upvar_origin(b, rd)
                if parent is None:
                    out.add((b.id, "unk", "nocreate", path))
                    continue
                for (prk, prd, ppath) in provs:
                    st.append((parent, (prk, prd, ppath + path)))
            elif rk == "agg" and path:
                ex = b._through_agg(t)
                if ex == {t}:
                    out.add((b.id, rk, rd, path))
                else:
                    for t2 in ex:
                        st.append((b, t2))
            else:
                out.add((b.id, rk, rd, path))
        return out

    def cell_name(self, gcell):
        bid, rk, rd, path = gcell
        b = self.bodies[bid]
        return "%s::%s" % (norm(bid), b.term_name((rk, rd, path)))
