"""Pretty-print a body of the facts file (debug aid)."""
import json, sys

def pl(p):
    s = "_%d" % p[0]
    for e in p[1:]:
        if e == "*": s = "(*%s)" % s
        else: s += e
    return s

def op(o):
    if o["k"] in ("copy", "move"): return ("move " if o["k"] == "move" else "") + pl(o["p"])
    if o["k"] == "const": return "const " + (o.get("fn") or o["s"])
    return "?"

def rv(r):
    k = r["k"]
    if k == "use": return op(r["op"])
    if k == "ref": return ("&mut " if r["mut"] else "&") + pl(r["p"])
    if k == "agg": return "%s %s%s(%s)" % (r["ak"], r.get("def", ""), "::" + r["variant"] if "variant" in r else "", ", ".join(op(x) for x in r["ops"]))
    if k == "cast": return "cast " + op(r["op"])
    if k == "binop": return "%s(%s, %s)" % (r["op"], op(r["a"]), op(r["b"]))
    if k == "unop": return "%s(%s)" % (r["op"], op(r["a"]))
    if k == "discr": return "discr(%s)" % pl(r["p"])
    return k + " " + r.get("s", "")

def dump(b):
    print("==", b["id"], b["kind"], "%s:%d" % (b["file"], b["line"]), "argc", b["argc"], "parent", b["parent"])
    for u in b.get("upvars", []):
        print("  upvar", u["idx"], u.get("name"), u["ty"]["s"], "byref" if u.get("byref") else "", [ (l["chain"], l["end"]) for l in u["leaves"]])
    for i, l in enumerate(b["locals"]):
        print("  _%d: %s %s" % (i, l["ty"]["s"], l.get("name", "")))
    for i, bb in enumerate(b["blocks"]):
        print(" bb%d%s:" % (i, " (cleanup)" if bb["cleanup"] else ""))
        for s in bb["stmts"]:
            if s["k"] == "assign": print("    %s = %s" % (pl(s["lhs"]), rv(s["rv"])))
            elif s["k"] in ("dead",): print("    dead _%d" % s["l"])
        t = bb["term"]
        if t["k"] == "call":
            f = t["fn"]
            name = f.get("path") if f["k"] == "def" else "indirect " + op(f["op"])
            inst = f.get("inst")
            print("    %s = CALL %s [%s] (%s) -> bb%s   L%d" % (pl(t["dest"]), name, inst["path"] if inst else "-", ", ".join(op(a) for a in t["args"]), t["target"], t["line"]))
        elif t["k"] == "switch": print("    switch %s %s else bb%d" % (op(t["discr"]), t["targets"], t["otherwise"]))
        elif t["k"] == "drop": print("    drop %s -> bb%d" % (pl(t["p"]), t["target"]))
        else: print("    %s %s" % (t["k"], t.get("target", "")))

if __name__ == "__main__":
    facts = json.load(open(sys.argv[1]))
    for b in facts["bodies"]:
        if any(a in b["id"] for a in sys.argv[2:]):
            dump(b)
