"""Which rules decide which property, with floors (instance counts confirmed by hand on the
reviewed tree; lower bounds) and the argument each rule set supports."""
import rules_h as RH
import rules_k as RK
import rules_o as RO
import rules_l as RL
import rules_q as RQ
import rules_w as RW
import rules_c17 as RC17
import rules_sched as RS
import rules_subject as RJ
import rules_x as RX
import rules_count as RCNT
import rules_opsem as ROPS
import rules_arity as RAR

COMBINATORS = ("merge", "flat_map", "concat", "zip", "combine_latest", "amb", "take_until",
               "skip_until", "sample", "switch_on_next", "sequence_equal")
RECOVERY = ("retry", "retry_when", "on_error_resume_next", "materialize", "dematerialize")
SCHED_OPS = ("observe_on", "subscribe_on")


def _root_mod(t):
    parts = t["root"].lstrip("<").split("::")
    return parts[1] if len(parts) > 1 and parts[0] in ("operators", "observables", "subjects", "utils") else parts[0]


def scope_c03(t):
    return t["root"].startswith("operators::") and _root_mod(t) in COMBINATORS


def scope_c04(t):
    return t["root"].startswith("operators::") and _root_mod(t) in RECOVERY


def scope_c09(t):
    return t["root"].startswith("operators::") and _root_mod(t) in SCHED_OPS


def scope_c11(t):
    return t["root"].startswith("operators::") and _root_mod(t) in ("merge", "flat_map", "zip", "concat", "amb")


def scope_c02(t):
    return not (scope_c03(t) or scope_c04(t) or scope_c09(t))


def _is_combinator_root(root):
    parts = root.split("::")
    return len(parts) > 1 and parts[0] == "operators" and parts[1] in COMBINATORS


def _only(r, prefixes, contains=None):
    """Restrict a multi-clause rule result to the clauses (first key element) a property owns."""
    r.instances = [i for i in r.instances if i[0] and i[0][0] in prefixes
                   and (contains is None or any(any(x in str(k) for x in contains) for k in i[0]))]
    r.violations = [v for v in r.violations if v.key and v.key[0] in prefixes
                    and (contains is None or any(any(x in str(k) for x in contains) for k in v.key))]
    return r


def _pfx(*prefixes):
    return lambda t: t.lstrip("<").startswith(prefixes)


def _xacq(*prefixes):
    return lambda c: RX.x_blocking_acq(c.P, c.E, c.H, _pfx(*prefixes))


def _xclone(floor, *prefixes):
    return lambda c: RX.clone_shares(c.P, c.E, _pfx(*prefixes), floor)


def _l1_tasks(r):
    """L1 instances / violations of code that runs on a scheduler's worker (the TASK role in the stable name)"""
    r.instances = [i for i in r.instances if i[0] and ("/TASK" in str(i[0][0]) or "::{closure" in str(i[0][0]) and any(
        m in str(i[0][0]) for m in ("debounce", "observe_on", "subscribe_on", "interval", "timer", "timeout", "delay")))]
    r.violations = [v for v in r.violations if v.key and "/TASK" in str(v.key[0])]
    return r


def _l1_subject_errors(r):
    """L1 on the subjects' error emitters (a guard held across the error broadcast)"""
    r.instances = [i for i in r.instances if i[0] and str(i[0][0]).startswith("subjects::") and str(i[0][0]).split("::")[-1] in ("next", "error", "complete")]
    # the emitter methods carry the subject's type name as their stable name (closures inside observable() have a /ROLE suffix)
    r.violations = [v for v in r.violations if v.key and str(v.key[0]).startswith("subjects::") and "/" not in str(v.key[0])]
    return r


def _only_subjects(r):
    r.instances = [i for i in r.instances if i[0] and str(i[0][0]).lstrip("<").startswith("subjects::")]
    r.violations = [v for v in r.violations if v.key and str(v.key[0]).lstrip("<").startswith("subjects::")]
    return r


class Ctx:
    def __init__(self, P, E, H):
        self.P, self.E, self.H = P, E, H


# each entry: (rule id, callable(ctx) -> RuleResult, floor on examined instances)
def rules_for(pid):
    R = {
        "C01": [
            ("O-typestate", lambda c: RO.o_typestate(
                c.P, c.E, ("callback after terminal", "two terminals in one call", "slot refilled", "live delivery lost")), 4),
            ("O-who-may-invoke", lambda c: RO.o_who_may_invoke(c.P, c.E), 3),
            ("F-atomic-take", lambda c: RO.f_atomic_take(c.P, c.E), 3),
            ("F-no-guard-call", lambda c: RO.f_no_guard_call(c.P, c.E), 3),
            ("S-gate", lambda c: RO.s_gate(c.P, c.E), 3),
            ("S-finalize-after-terminal", lambda c: RO.s_finalize_after_terminal(c.P, c.E), 3),
            ("A19b", lambda c: RJ.a19b(c.P, c.E), 3),
            ("X-blocking-acq", _xacq("observer::", "internals::function_wrapper::"), 5),
            ("CLONE-SHARES", _xclone(2, "observer::", "internals::function_wrapper::"), 2),
            ("F-slot-truth", lambda c: RO.f_slot_truth(c.P, c.E), 4),
            ("INIT", lambda c: RX.init_rule(c.P, c.E, ("observer::",)), 2),
            ("K-slot-fresh", lambda c: RK.k_slot_fresh(c.P, c.E), 4),
            ("O-slot-purity", lambda c: RO.o_slot_purity(c.P, c.E), 3),
            ("WIRE-subscribe", lambda c: RX.wire_rule(c.P, c.E, c.H, lambda m: m == "observable"), 1),
            ("F-clear-total", lambda c: RO.f_clear_total(c.P, c.E), 1),
            ("F-direct-call", lambda c: RO.f_direct_call(c.P, c.E), 3),
            ("O-slot-calls", lambda c: RO.o_slot_calls(c.P, c.E), 1),
        ],
        "C02": [
            ("H-complete", lambda c: RH.h_complete(c.P, c.E, c.H, scope_c02), 14),
            ("H-serial", lambda c: RH.h_serial(c.P, c.E, c.H), 28),
            ("K-fresh-state", lambda c: RK.k_fresh_state(c.P, c.E, lambda root: not _is_combinator_root(root)), 18),
            ("D-compose", lambda c: RO.d_compose(c.P, c.E), 3),
            ("COUNT", lambda c: RCNT.count_rule(c.P, c.E, c.H), 6),
            ("OPSEM", lambda c: ROPS.opsem_rule(c.P, c.E, c.H), 20),
            ("SRC", lambda c: ROPS.creators_rule(c.P, c.E, c.H), 9),
            ("D-compose2", lambda c: ROPS.compose_rule(c.P, c.E, c.H), 4),
            ("H-next-forward", lambda c: ROPS.forward_rule(c.P, c.E, c.H), 8),
            ("SUB-inputs", lambda c: RX.sub_inputs(c.P, c.E, c.H), 40),
            ("WIRE", lambda c: RX.wire_rule(c.P, c.E, c.H, lambda m: m not in COMBINATORS and m not in RECOVERY and m not in SCHED_OPS and m not in ("publish", "ref_count", "replay")), 50),
        ],
        "C03": [
            ("H-register-first", lambda c: RH.h_register_first(c.P, c.E, c.H), 9),
            ("H-complete", lambda c: RH.h_complete(c.P, c.E, c.H, scope_c03), 6),
            ("K-fresh-state", lambda c: RK.k_fresh_state(c.P, c.E, _is_combinator_root), 4),
            ("D-amb-mirror", lambda c: RH.amb_mirror(c.P, c.E, c.H), 1),
            ("D-combine-latest", lambda c: RH.combine_latest_not_zip(c.P, c.E, c.H), 1),
            ("J6-ready-set-go", lambda c: _only(RJ.j_rules(c.P, c.E), ("J6",)), 3),
            ("S-fresh-serial", lambda c: RO.s_fresh_serial(c.P, c.E), 2),
            ("S-remove-and-test", lambda c: RO.s_remove_and_test(c.P, c.E), 1),
            ("D-atomic-latest", lambda c: _only(RJ.d_rules(c.P, c.E, c.H), ("D1", "D2"), ("sample", "debounce")), 2),
            ("GATE", lambda c: ROPS.gates_rule(c.P, c.E, c.H), 4),
            ("AMB", lambda c: ROPS.amb_rule(c.P, c.E, c.H), 1),
            ("SEQ-EQ", lambda c: ROPS.seq_equal_rule(c.P, c.E, c.H), 1),
            ("CONCAT", lambda c: ROPS.concat_rule(c.P, c.E, c.H), 1),
            ("ZIP", lambda c: ROPS.zip_rule(c.P, c.E, c.H), 3),
            ("H-next-forward", lambda c: ROPS.forward_rule(c.P, c.E, c.H), 8),
            ("SUB-inputs", lambda c: RX.sub_inputs(c.P, c.E, c.H), 40),
            ("ARITY", lambda c: RAR.arity_rule(c.P, c.E, c.H), 3),
            ("COMPLETE-KIND", lambda c: ROPS.complete_kind_rule(c.P, c.E, c.H), 8),
            ("GATE-ORDER", lambda c: ROPS.gate_order_rule(c.P, c.E, c.H), 4),
            ("WIRE", lambda c: RX.wire_rule(c.P, c.E, c.H, lambda m: m in COMBINATORS), 20),
            ("OPSEM-combine", lambda c: _only(ROPS.opsem_rule(c.P, c.E, c.H), ("operators::sequence_equal::SequenceEqual", "operators::combine_latest::CombineLatest")), 2),
            ("H-error", lambda c: RH.h_error(c.P, c.E, c.H, scope_c03), 10),
        ],
        "C04": [
            ("H-error", lambda c: RH.h_error(c.P, c.E, c.H), 26),
            ("R1", lambda c: RH.r1_retry_drops_first(c.P, c.E, c.H), 3),
            ("H-role-agreement", lambda c: RH.h_role_agreement(c.P, c.E, c.H), 24),
            ("H-complete", lambda c: RH.h_complete(c.P, c.E, c.H, scope_c04), 3),
            ("T-rxerror", lambda c: RH.rxerror_immutable(c.P, c.E), 3),
            ("J-terminal", lambda c: _only(RJ.j_rules(c.P, c.E), ("J3", "J4", "J7")), 3),
            ("K-fresh-state", lambda c: RK.k_fresh_state(c.P, c.E, lambda root: root.startswith("operators::")
                                                        and root.split("::")[1] in RECOVERY), 3),
            ("HANDOFF", lambda c: RS.handoff_rules(c.P, c.E, c.H), 3),
            ("OPSEM", lambda c: _only(ROPS.opsem_rule(c.P, c.E, c.H), ("operators::materialize::Materialize",
                                                                      "operators::dematerialize::Dematerialize")), 2),
            ("H-next-forward", lambda c: ROPS.forward_rule(c.P, c.E, c.H), 8),
            ("SUB-inputs", lambda c: RX.sub_inputs(c.P, c.E, c.H), 40),
            ("RETRY", lambda c: ROPS.retry_rule(c.P, c.E, c.H), 2),
            ("S-gate", lambda c: RO.s_gate(c.P, c.E), 3),
            # amb is not an error handler: the error of the input that signals first (or of the winner) is mirrored
            ("AMB", lambda c: ROPS.amb_rule(c.P, c.E, c.H), 1),
            ("GATE", lambda c: ROPS.gates_rule(c.P, c.E, c.H), 4),
            ("WIRE", lambda c: RX.wire_rule(c.P, c.E, c.H, lambda m: m in RECOVERY), 8),
            # a subject that holds a guard across its error broadcast blocks the resubscription retry / on_error_resume_next make from inside it
            ("L1-subject-emitters", lambda c: _l1_subject_errors(RL.l1_reentrancy(c.P, c.E, c.H)), 0),
        ],
        "C05": [
            ("O-unsub-order", lambda c: RO.o_unsub_order(c.P, c.E), 4),
            ("S-wiring", lambda c: RO.s_wiring(c.P, c.E), 3),
            ("SUB", lambda c: RO.sub_rules(c.P, c.E), 3),
            ("F-atomic-take", lambda c: RO.f_atomic_take(c.P, c.E), 3),
            ("O-typestate", lambda c: RO.o_typestate(
                c.P, c.E, ("callback after unsubscribe", "is_subscribed not false", "slot refilled")), 4),
            ("S-gate", lambda c: RO.s_gate(c.P, c.E), 3),
            ("J1", lambda c: _only(RJ.j_rules(c.P, c.E), ("J1",)), 2),
            ("X-blocking-acq", _xacq("observer::", "internals::function_wrapper::", "subscription::"), 5),
            ("CLONE-SHARES", _xclone(2, "observer::", "subscription::"), 2),
            ("F-slot-truth", lambda c: RO.f_slot_truth(c.P, c.E), 4),
            ("Q", lambda c: RQ.q_rules(c.P, c.E), 10),
            ("HOOK-STORE", lambda c: RO.hook_store(c.P, c.E, ("observer::", "internals::stream_controller::")), 2),
            ("WIRE-subscribe", lambda c: RX.wire_rule(c.P, c.E, c.H, lambda m: m == "observable"), 1),
            ("F-clear-total", lambda c: RO.f_clear_total(c.P, c.E), 1),
            ("SUB-handoff-only", lambda c: RO.sub_handoff_only(c.P, c.E), 1),
            ("P8", lambda c: _only(RJ.p_rules(c.P, c.E), ("P8",)), 1),
        ],
        "C06": [
            ("H-early-stop", lambda c: RH.h_early_stop(c.P, c.E, c.H), 24),
            ("S-wiring", lambda c: RO.s_wiring(c.P, c.E), 3),
            ("S-finalize-after-terminal", lambda c: RO.s_finalize_after_terminal(c.P, c.E), 3),
            ("S-finalize-shape", lambda c: RO.s_finalize_shape(c.P, c.E), 3),
            ("R1", lambda c: RH.r1_retry_drops_first(c.P, c.E, c.H), 3),
            ("S-fresh-serial", lambda c: RO.s_fresh_serial(c.P, c.E), 2),
            ("SUB-live-gate", lambda c: RO.sub_live_gate(c.P, c.E), 1),
            ("H-register-first", lambda c: RH.h_register_first(c.P, c.E, c.H), 9),
            ("LATE-HANDLE", lambda c: RJ.late_handle(c.P, c.E), 2),
            ("X-blocking-acq", _xacq("operators::", "internals::stream_controller::", "subscription::", "observable::"), 40),
            ("CLONE-SHARES", _xclone(1, "internals::stream_controller::"), 1),
            # take is the early finisher among the counting operators: "has all it needs" is the count-th item (take(0): the first)
            ("COUNT-take", lambda c: _only(RCNT.count_rule(c.P, c.E, c.H), ("operators::take::Take",)), 1),
            # a subscription that ends before the scheduler ran the subscribing task must still reach the scheduler (abort wired
            # before anything is posted): otherwise the queued task subscribes the source for a subscriber that has left
            ("T1", lambda c: RS.t1_abort_wired(c.P, c.E), 3),
            ("HOOK-STORE", lambda c: RO.hook_store(c.P, c.E, ("observer::", "internals::stream_controller::")), 2),
            # start_with re-checks the subscriber after its last prefix item before it subscribes the source
            ("D-compose2-start_with", lambda c: _only(ROPS.compose_rule(c.P, c.E, c.H), ("operators::start_with::StartWith",)), 1),
            # amb's losers are cut when they next show themselves
            ("AMB", lambda c: ROPS.amb_rule(c.P, c.E, c.H), 1),
            # aborting an upstream that is just delivering its own terminal (retry / resume-next inside the error callback) still runs its teardown
            ("O-unsub-order", lambda c: RO.o_unsub_order(c.P, c.E), 4),
            ("REG-ALL", lambda c: RX.reg_all(c.P, c.E, c.H), 40),
            # an endless iterator / producer loop must be able to stop: the emitting loop polls is_subscribed and leaves
            ("L4", lambda c: RL.l4_producer_polling(c.P, c.E), 3),
        ],
        "C07": [
            ("L1", lambda c: RL.l1_reentrancy(c.P, c.E, c.H), 19),
            ("L2", lambda c: RL.l2_leaf_locks(c.P, c.E), 7),
            ("L4", lambda c: RL.l4_producer_polling(c.P, c.E), 3),
            ("F-no-guard-call", lambda c: RO.f_no_guard_call(c.P, c.E), 3),
            ("S-finalize-after-terminal", lambda c: RO.s_finalize_after_terminal(c.P, c.E), 3),
            # lock order of the queue's cells (L3, Q1, Q10) and the wake-up protocol: a parked worker is woken by every enabling write (Q2),
            # its predicate reads both conditions (Q3) and it re-checks abort before it pops (Q4) - else it waits forever
            ("Q-lock-order", lambda c: _only(RQ.q_rules(c.P, c.E), ("L3", "Q1", "Q10", "Q2", "Q3", "Q4", "Q13")), 5),
            # a take that never finishes leaves subscribe() spinning in an endless but cancellable source (repeat, a while-is_subscribed loop)
            ("COUNT-take", lambda c: _only(RCNT.count_rule(c.P, c.E, c.H), ("operators::take::Take",)), 1),
            # the to_vec future: a terminal that lands between poll's test and its waker store must still wake the task; lock order of its cells
            ("W", lambda c: RW.w_rules(c.P, c.E), 4),
            ("H-register-first", lambda c: RH.h_register_first(c.P, c.E, c.H), 9),
        ],
        "C08": [
            ("Q", lambda c: RQ.q_rules(c.P, c.E), 10),
            ("X-blocking-acq", _xacq("schedulers::"), 4),
            ("CLONE-SHARES", _xclone(2, "schedulers::"), 2),
            ("INIT", lambda c: RX.init_rule(c.P, c.E, ("schedulers::",)), 1),
            ("Q14", lambda c: RS.sched_factory_fresh(c.P, c.E), 1),
        ],
        "C17": [
            ("K-self-cycle", lambda c: RC17.k_self_cycle(c.P, c.E), 5),
            ("K1", lambda c: RC17.k1_cut_after_terminal(c.P, c.E), 1),
            ("K5", lambda c: RC17.k5_relay_cut(c.P, c.E), 3),
            ("K6", lambda c: RC17.k6_connect_cycle(c.P, c.E), 2),
            ("S-finalize-after-terminal", lambda c: RO.s_finalize_after_terminal(c.P, c.E), 3),
            ("S-finalize-shape", lambda c: RO.s_finalize_shape(c.P, c.E), 3),
            ("O-unsub-order", lambda c: RO.o_unsub_order(c.P, c.E), 4),
            ("SUB-live-gate", lambda c: RO.sub_live_gate(c.P, c.E), 1),
            ("H-early-stop", lambda c: RH.h_early_stop(c.P, c.E, c.H), 24),
            ("K-slot-fresh", lambda c: RK.k_slot_fresh(c.P, c.E), 4),
            # a source subscribed on behalf of a subscriber that has already finished is never released (nor are the closures upstream of it)
            ("D-compose2-start_with", lambda c: _only(ROPS.compose_rule(c.P, c.E, c.H), ("operators::start_with::StartWith",)), 1),
            # a source wired up after its downstream has ended is never released
            ("H-register-first", lambda c: RH.h_register_first(c.P, c.E, c.H), 9),
            ("T1", lambda c: RS.t1_abort_wired(c.P, c.E), 3),
            ("REG-ALL", lambda c: RX.reg_all(c.P, c.E, c.H), 40),
        ],
        "C18": [
            ("W", lambda c: RW.w_rules(c.P, c.E), 4),
            ("CLONE-SHARES", _xclone(1, "operators::to_vec::"), 1),
            ("X-blocking-acq", _xacq("operators::to_vec::"), 3),
            # the vector the future yields is final: to_vec's buffer grows only in the next callback (W4), and the observer it
            # subscribes with runs no callback after a terminal
            ("O-typestate", lambda c: RO.o_typestate(c.P, c.E, ("callback after terminal",)), 1),
            ("INIT", lambda c: RX.init_rule(c.P, c.E, ("operators::to_vec::",)), 3),
            ("SUB-handoff-only", lambda c: RO.sub_handoff_only(c.P, c.E), 1),
        ],
        "C09": [
            ("HANDOFF", lambda c: RS.handoff_rules(c.P, c.E, c.H), 3),
            ("ABORT-WHO", lambda c: RS.abort_who_may_call(c.P, c.E), 3),
            ("SUBSCRIBE-ON", lambda c: RS.subscribe_on_rule(c.P, c.E), 2),
            ("H-complete", lambda c: RH.h_complete(c.P, c.E, c.H, scope_c09), 2),
            ("S-gate", lambda c: RO.s_gate(c.P, c.E), 3),
            ("Q", lambda c: RQ.q_rules(c.P, c.E), 10),
            ("K-fresh-state", lambda c: RK.k_fresh_state(c.P, c.E, lambda root: root.startswith("operators::")
                                                        and root.split("::")[1] in SCHED_OPS), 2),
            ("H-next-forward", lambda c: ROPS.forward_rule(c.P, c.E, c.H), 8),
            ("SUB-inputs", lambda c: RX.sub_inputs(c.P, c.E, c.H), 40),
            # observe_on's handlers only post: nothing on the emitting thread may tear the stream down behind them
            ("S-wiring-relay", lambda c: _only(RO.s_wiring(c.P, c.E), ("internals::stream_controller::StreamController::new_observer",),
                                               contains=("relay", "registered observer")), 3),
            ("WIRE", lambda c: RX.wire_rule(c.P, c.E, c.H, lambda m: m in SCHED_OPS), 4),
            ("H-error", lambda c: RH.h_error(c.P, c.E, c.H, scope_c09), 2),
            ("T2", lambda c: RS.t2_one_scheduler(c.P, c.E), 5),
        ],
        "C10": [
            ("J", lambda c: RJ.j_rules(c.P, c.E), 8),
            ("D-compose", lambda c: RO.d_compose(c.P, c.E), 3),
            ("L2", lambda c: RL.l2_leaf_locks(c.P, c.E), 7),
            ("LATE-HANDLE", lambda c: RJ.late_handle(c.P, c.E), 2),
            ("K-hot-state", lambda c: RX.k_hot_state(c.P, c.E, c.H), 3),
            ("X-blocking-acq", _xacq("subjects::"), 15),
            ("CLONE-SHARES", _xclone(3, "subjects::"), 3),
            ("SUBJ", lambda c: ROPS.subjects_rule(c.P, c.E, c.H), 8),
            ("L1-subjects", lambda c: _only_subjects(RL.l1_reentrancy(c.P, c.E, c.H)), 1),
            ("INIT", lambda c: RX.init_rule(c.P, c.E, ("subjects::",)), 2),
            ("HOOK-STORE", lambda c: RO.hook_store(c.P, c.E, ("observer::",)), 1),
            # AsyncSubject::observable is subject.take_last(1): its hand-out at completion (last item, then complete - also for an empty buffer)
            ("COUNT-take_last", lambda c: _only(RCNT.count_rule(c.P, c.E, c.H), ("operators::take_last::TakeLast",)), 1),
        ],
        "C11": [
            ("D", lambda c: RJ.d_rules(c.P, c.E, c.H), 3),
            ("S-remove-and-test", lambda c: RO.s_remove_and_test(c.P, c.E), 1),
            ("S-fresh-serial", lambda c: RO.s_fresh_serial(c.P, c.E), 2),
            ("F-atomic-take", lambda c: RO.f_atomic_take(c.P, c.E), 3),
            ("AMB", lambda c: ROPS.amb_rule(c.P, c.E, c.H), 1),
            # "exactly one complete": every input's completion must reach the remove-and-test (or start the successor)
            ("H-complete", lambda c: RH.h_complete(c.P, c.E, c.H, scope_c11), 5),
            ("ARITY", lambda c: RAR.arity_rule(c.P, c.E, c.H), 3),
            ("COMPLETE-KIND", lambda c: ROPS.complete_kind_rule(c.P, c.E, c.H), 8),
            # observe_on behind a combinator fed from several threads: its scheduler exists before the first event
            ("T2", lambda c: RS.t2_one_scheduler(c.P, c.E), 5),
            ("H-next-forward", lambda c: ROPS.forward_rule(c.P, c.E, c.H), 8),
        ],
        "C12": [
            ("J", lambda c: _only(RJ.j_rules(c.P, c.E), ("J1", "J2", "J3", "J6", "J7", "J10")), 5),
            ("J8", lambda c: RJ.j_windows(c.P, c.E), 4),
            ("K-hot-state", lambda c: RX.k_hot_state(c.P, c.E, c.H), 3),
            ("X-blocking-acq", _xacq("subjects::"), 15),
            ("CLONE-SHARES", _xclone(3, "subjects::"), 3),
            ("INIT", lambda c: RX.init_rule(c.P, c.E, ("subjects::",)), 2),
            ("O-slot-calls", lambda c: RO.o_slot_calls(c.P, c.E), 1),
            ("O-typestate", lambda c: RO.o_typestate(c.P, c.E, ("live delivery lost",)), 1),
        ],
        "C13": [
            ("P", lambda c: RJ.p_rules(c.P, c.E), 6),
            ("J", lambda c: _only(RJ.j_rules(c.P, c.E), ("J1", "J2", "J5", "J6", "J7", "J9", "J10")), 3),
            ("X-blocking-acq", _xacq("operators::ref_count::", "operators::replay::", "operators::publish::", "subjects::"), 15),
            ("CLONE-SHARES", _xclone(3, "operators::ref_count::", "operators::replay::", "operators::publish::"), 3),
            ("OBS-fresh", lambda c: RX.obs_fresh(c.P, c.E, c.H), 30),
            ("LATE-HANDLE", lambda c: RJ.late_handle(c.P, c.E), 2),
            # the count-down hooks of ref_count/replay hear of a leaving subscriber only through Subscription::unsubscribe
            ("SUB", lambda c: RO.sub_rules(c.P, c.E), 3),
            ("INIT", lambda c: RX.init_rule(c.P, c.E, ("operators::ref_count::", "operators::replay::")), 2),
            ("HOOK-STORE", lambda c: RO.hook_store(c.P, c.E, ("subjects::subject::",)), 2),
            ("WIRE", lambda c: RX.wire_rule(c.P, c.E, c.H, lambda m: m in ("publish", "ref_count", "replay")), 6),
            # the registry is emptied at a terminal: a finished subscriber that never unsubscribes must not keep the count above zero
            ("J-terminal", lambda c: _only(RJ.j_rules(c.P, c.E), ("J3", "J4")), 2),
            ("SUBJ", lambda c: ROPS.subjects_rule(c.P, c.E, c.H), 5),
        ],
        "C15": [
            ("T1", lambda c: RS.t1_abort_wired(c.P, c.E), 3),
            # a parked worker hears of the abort (Q2 notify after the flag, Q3 predicate reads it), is the only one (Q7), and its loop ends on it (Q8)
            ("Q-exit", lambda c: _only(RQ.q_rules(c.P, c.E), ("Q2", "Q3", "Q7", "Q8")), 5),
            ("S-finalize-shape", lambda c: RO.s_finalize_shape(c.P, c.E), 3),
            ("L4", lambda c: RL.l4_producer_polling(c.P, c.E), 3),
            ("S-finalize-after-terminal", lambda c: RO.s_finalize_after_terminal(c.P, c.E), 3),
            ("X-blocking-acq", _xacq("schedulers::"), 4),
            ("S-wiring", lambda c: RO.s_wiring(c.P, c.E), 3),
            ("INIT", lambda c: RX.init_rule(c.P, c.E, ("schedulers::", "internals::stream_controller::")), 2),
            ("HOOK-STORE", lambda c: RO.hook_store(c.P, c.E, ("internals::stream_controller::",)), 1),
            # a posted task that blocks on a lock its own thread holds never returns to the queue: the worker never sees the abort
            ("L1-tasks", lambda c: _l1_tasks(RL.l1_reentrancy(c.P, c.E, c.H)), 1),
            # disconnect must find the connection: connect stores the handle under the guard it tested under
            ("P-connect", lambda c: _only(RJ.p_rules(c.P, c.E), ("P2", "P3", "P6")), 2),
            ("H-register-first", lambda c: RH.h_register_first(c.P, c.E, c.H), 9),
            ("H-early-stop", lambda c: RH.h_early_stop(c.P, c.E, c.H), 24),
            ("Q14", lambda c: RS.sched_factory_fresh(c.P, c.E), 1),
        ],
        "C19": [
            ("A19b", lambda c: RJ.a19b(c.P, c.E), 3),
            ("S-gate", lambda c: RO.s_gate(c.P, c.E), 3),
            ("O-typestate", lambda c: RO.o_typestate(c.P, c.E, ("callback after terminal", "two terminals in one call", "slot refilled")), 4),
            ("F-atomic-take", lambda c: RO.f_atomic_take(c.P, c.E), 3),
            ("F-no-guard-call", lambda c: RO.f_no_guard_call(c.P, c.E), 3),
            ("X-blocking-acq", _xacq("observer::", "internals::function_wrapper::"), 5),
            ("F-slot-truth", lambda c: RO.f_slot_truth(c.P, c.E), 4),
            # the arbitration cells (three slots + the terminal flag) are ONE set per subscriber: every clone shares them
            ("CLONE-SHARES", _xclone(2, "observer::", "internals::function_wrapper::"), 2),
            ("INIT", lambda c: RX.init_rule(c.P, c.E, ("observer::",)), 2),
            ("O-slot-purity", lambda c: RO.o_slot_purity(c.P, c.E), 3),
            ("WIRE-subscribe", lambda c: RX.wire_rule(c.P, c.E, c.H, lambda m: m == "observable"), 1),
            ("F-clear-total", lambda c: RO.f_clear_total(c.P, c.E), 1),
            ("F-direct-call", lambda c: RO.f_direct_call(c.P, c.E), 3),
            ("O-slot-calls", lambda c: RO.o_slot_calls(c.P, c.E), 1),
            ("SUB-handoff-only", lambda c: RO.sub_handoff_only(c.P, c.E), 1),
        ],
        "C14": [
            ("K-fresh-state", lambda c: RK.k_fresh_state(c.P, c.E), 28),
            ("K-fw-immutable", lambda c: RK.k_fw_immutable(c.P, c.E), 3),
            ("CLONE-SHARES", _xclone(40, "operators::", "observable::", "internals::function_wrapper::"), 40),
            ("OBS-fresh", lambda c: RX.obs_fresh(c.P, c.E, c.H), 30),
            ("R1", lambda c: RH.r1_retry_drops_first(c.P, c.E, c.H), 3),
            # resubscription from inside a hot source's terminal notification (retry, on_error_resume_next, concat of the same
            # subject): the registry is emptied BEFORE the observers are notified, so what registers meanwhile survives
            ("J1-J4", lambda c: _only(RJ.j_rules(c.P, c.E), ("J1", "J4")), 4),
            ("K-slot-fresh", lambda c: RK.k_slot_fresh(c.P, c.E), 4),
        ],
    }
    return R.get(pid, [])


EXPLANATION = {
    "C01": "Every delivery to user callbacks goes through Observer::{next,error,complete} "
           "(O-who-may-invoke: slots private, accessed only in impl Observer).  The contract for every "
           "subscriber and every sequential history is therefore a property of five method summaries, "
           "extracted from MIR by abstract interpretation over the 16 slot states and explored "
           "exhaustively (O-typestate).  F-atomic-take / F-no-guard-call: a terminal is taken under one "
           "write guard and invoked outside it.  S-gate / S-finalize-after-terminal: operators deliver only "
           "behind is_subscribed() and tear down after a terminal.  Concurrent histories are C19's subject.",
    "C02": "Terminal forwarding: for every single-source operator's handler triple, the "
           "complete-handler reaches a downstream completion on every CFG path (H-complete) and serial "
           "arguments are the handler's own (H-serial).  Counting clause (COUNT): for take / skip / take_last / "
           "skip_last / buffer_with_count / window_with_count the item handler is summarised symbolically into "
           "guarded transitions over (counter or queue length, count) and explored for every count 0..9 and item "
           "index 1..14 against the operator's table (which indices are emitted, held back, complete).  "
           "Control-level semantics (OPSEM): filter / take_while / skip_while / default_if_empty / ignore_elements / "
           "distinct_until_changed / count / contains / map / tap are explored in lock-step with a reference machine over "
           "every sequence of predicate / equality outcomes up to 5 items and both endings.  "
           "Item values, predicates and accumulators are NOT decided (they quantify over runtime values).",
    "C03": "Structural clauses of the combinators: all upstream observers of one activation are registered "
           "before any upstream is subscribed (H-register-first), and every complete/error handler of a "
           "combinator reaches the matching downstream terminal on every path.  Pairing / interleaving "
           "semantics are NOT decided.",
    "C04": "Error handlers forward their own error object (dataflow provenance through move/copy/clone only) "
           "to sink_error on every path, or are structural recoveries (abort own upstream then resubscribe) "
           "or materialisation; every value reaching sink_error derives from a received RxError; retry drops "
           "the failed upstream before resubscribing (R1).  Retry counts are NOT decided.",
    "C05": "Observer::unsubscribe clears the three user slots before running teardown and empties the teardown "
           "slot on every path (O-unsub-order); the slot automaton shows no callback after unsubscribe, "
           "is_subscribed false afterwards, slots never refilled (O-typestate iii-v); sinks are gated.",
    "C06": "Early-stop pairing: every sink_complete(serial) in a next-handler context is preceded on all paths "
           "by upstream_abort_observe(serial) (sink_complete removes the entry without running it); "
           "finalize runs every entry, clears the map, takes-and-runs on_finalize; sinks finalize after a "
           "terminal and when the subscriber is gone; recovery handlers drop the failed upstream.",
    "C07": "Three clauses. L1 (same-thread re-entrancy): for every guard (118 acquisitions, liveness exact from MIR "
           "Drop/StorageDead/moves) and every call inside its live range that may reach code held in a USER slot "
           "(fixpoint over the resolved call graph; teardown slots resolved to the crate closures stored in them), "
           "no conflicting acquisition of the same cell instance is reachable on re-entry.  L2: infrastructure locks "
           "are leaf locks (no user code, no nested acquisition).  L4: every emitting loop polls is_subscribed() and "
           "can leave on its false edge.  Cross-thread cyclic waits among instances of the same lock classes along "
           "the teardown hierarchy are NOT decided (needs the runtime pipeline topology).",
    "C08": "async_function_queue is a closed module (three private cells).  The property over all interleavings follows "
           "from the classical monitor argument; its premises are checked on the MIR: Q1 abort written only under the "
           "queue mutex; Q2 notify after every enabling write; Q3 predicate wait reading abort and emptiness (and returning "
           "false when aborted); Q4 abort re-check between wait and pop under the same guard; Q5 task invoked with no guard; "
           "Q6 opposite queue ends; Q7 one worker, spawned once, outside any loop; Q8 the loop's only exit is the aborted "
           "branch and abort is sticky; Q9 the invoked task is the popped one, never re-queued; Q10 stop clears under the "
           "guard; Q11 DefaultScheduler::post runs its task exactly once synchronously; L3 lock order queue -> abort.",
    "C17": "Cycle-cut part.  Ownership cycles arise by installing a closure into a slot of an object the closure "
           "(transitively) owns; they are rediscovered from the MIR (three shapes) and must equal the reviewed table.  "
           "Obligations: K1 finalize() cuts the subscriber's teardown after a terminal (gates followed on the false "
           "edge), K2 finalize clears unscribers/on_finalize, K3 Observer::unsubscribe empties its teardown slot, K5 "
           "Behavior/Replay relays unsubscribe the subscriber after a terminal, K6 the connect closure is released.",
    "C18": "Monitor premises on ToVec::poll and the terminal callbacks of ToVec::start: W1 one write guard of `waker` "
           "spans the `done` test and the waker store; W2 done=true dominates the waker read and wake(); W3 err before "
           "done; W4 Ready only on the done edge, done never reset, buffer pushed only by next; W5 lock order.  "
           "(read guard of waker across wake(): accepted under A-waker).",
    "C09": "observe_on: each handler posts exactly one task on every path and sinks nothing itself; the task calls the "
           "matching sink exactly once with the handler's own payload/serial (provenance through the closure captures); "
           "scheduler.abort() is reachable only from on_finalize closures or posted tasks; subscribe_on subscribes only "
           "inside the posted task, which is posted on every path.  Order/no-loss/one-thread then rest on C08's queue "
           "premises (FIFO, single worker); post-unsubscribe silence on S-gate.",
    "C10": "Map discipline of Subject: J1 fresh serial under one write guard, inserted key == key removed by teardown; J2 "
           "who-may-write the observer map (insert on subscribe / remove in teardown / clear in terminals); J3 deliveries "
           "over the fetch_observers() snapshot with no map guard live; J4 terminals snapshot, clear, then deliver; J5 "
           "teardown installed before insertion; J6 history recorded before broadcast, ready_set_go subscribes before "
           "running its action.  Full reference state machines are NOT decided.",
    "C11": "Premises of the linearisation argument: D1 take/amb/zip/new_observer decide under exactly one write guard of "
           "the deciding cell, D2 no emission under it; S-remove-and-test (last-one-out); F-atomic-take (per-kind "
           "terminal take).  Multiset conservation under all schedules is NOT decided.",
    "C12": "J2 (single write-locked insert/remove/clear), J3 (each next delivers to a consistent snapshot, no guard "
           "held), J6 (record-before-broadcast, subscribe-before-replay), J7 (replay under the history guard), J8 (atomicity "
           "of record+broadcast and of hand-over+attach: a necessary condition of exactly-once / gap-freedom for late "
           "subscribers; violated today in both Behavior- and ReplaySubject - known findings with gdb-forced schedules).",
    "C13": "P1 publish subscribes only in connect; P2 connect of ref_count/replay is test(is_some)-and-set under one write "
           "guard of `subscription` with source.subscribe behind the test; P3 count-down unsubscribes the stored "
           "subscription; P4 the cell is written only by connect; P5 callbacks forward next->next, error->error, "
           "complete->complete.  History semantics NOT decided.",
    "C15": "T1 every scheduler created inside a subscription has abort() wired to its end (set_on_finalize before the "
           "first post on every path, or every posted task aborts on every path); Q7 threads are spawned only by "
           "NewThreadScheduler::new, once; Q8 the worker leaves its loop iff aborted (sticky); S-finalize-shape: "
           "on_finalize runs at every end; L4 task loops poll.  The `within one period` bound is NOT decided.",
    "C19": "A19b: both terminal "
           "methods deliver only on the true edge of ONE common test-and-set (a bool cell read and set under a single write "
           "guard; verified by interpreting the arbiter's MIR over the flag) => at most one terminal of either kind; the "
           "winner clears the next slot before invoking the terminal callback => nothing is delivered once that callback "
           "has returned (S-gate + Observer::next's own gate cover emissions that start later).",
    "C14": "The closure given to Observable::create is Fn+Send+Sync, so state that survives one subscription "
           "must sit behind interior mutability in a captured value; every capture of every SOURCE closure of "
           "a cold constructor is classified by the interior-mutable leaves of its type (K-fresh-state); "
           "FunctionWrapper::clear is called only by Observer::unsubscribe (K-fw-immutable).",
}
