"""Scheduler queue rules Q1-Q11 + L3 (DESIGN 6 C08): premises of the monitor argument for
AsyncFunctionQueue, checked on the MIR of scheduling / post / stop / NewThreadScheduler::new /
DefaultScheduler::post."""
from core import RuleResult
from effects import *

AFQ_MOD = "schedulers::async_function_queue::"
NTS = "schedulers::new_thread_scheduler::NewThreadScheduler"
DEFAULT_POST = "<schedulers::default_scheduler::DefaultScheduler as schedulers::scheduler::IScheduler>::post"
NTS_POST = "<schedulers::new_thread_scheduler::NewThreadScheduler as schedulers::scheduler::IScheduler>::post"
NTS_ABORT = "<schedulers::new_thread_scheduler::NewThreadScheduler as schedulers::scheduler::IScheduler>::abort"
NOTIFY = ("std::sync::Condvar::notify_one", "std::sync::Condvar::notify_all")
DEQUE = "std::collections::VecDeque::"


def _field_acqs(P, b, field):
    acqs, held, sh = b.guards()
    out = {}
    for bb, a in acqs.items():
        for t in a["cell"]:
            for (_, rk, rd, path) in P.global_cell(b, t, through_helpers="add"):
                if field in path:
                    out[bb] = a
    return out, held, sh


def _module_bodies(P):
    return [b for b in P.bodies.values() if b.nid.startswith(AFQ_MOD)]


def _touches(P, b, operand, field):
    for t in b.operand_prov(operand):
        for (_, rk, rd, path) in P.global_cell(b, t, through_helpers="add"):
            if field in path:
                return True
    return False


def _abort_stores(P, b):
    """(bb, idx, value) of stores through a guard of `abort`."""
    out = []
    for i in sorted(b.reach):
        for j, s in enumerate(b.blocks[i]["stmts"]):
            if s["k"] == "assign" and len(s["lhs"]) > 1:
                hit = False
                for t in b.place_prov(s["lhs"]):
                    for (_, rk, rd, path) in P.global_cell(b, t, through_helpers="add"):
                        if "abort" in path:
                            hit = True
                if hit:
                    rv = s["rv"]
                    val = None
                    if rv["k"] == "use" and rv["op"]["k"] == "const":
                        val = rv["op"].get("s")
                    out.append((i, j, val))
    return out


def q_rules(P, E):
    r = RuleResult("Q", "monitor premises of AsyncFunctionQueue (Q1-Q11, L3)")
    sched = P.body(AFQ + "::scheduling")
    post = P.body(AFQ + "::post")
    stop = P.body(AFQ + "::stop")
    for nm, b in (("scheduling", sched), ("post", post), ("stop", stop)):
        if b is None:
            r.error("anchor missing: AsyncFunctionQueue::%s" % nm)
    if r.errors:
        return r
    mod = _module_bodies(P)

    # ---- Q1: abort written only under the queue mutex
    nq1 = 0
    for b in mod:
        ab, held, sh = _field_acqs(P, b, "abort")
        qa, _, _ = _field_acqs(P, b, "queue")
        for bb, a in ab.items():
            if a["mode"] not in ("W", "M"):
                continue
            nq1 += 1
            r.instance(("Q1", b.nid), True, "abort write-acquired at bb%d; queue guards held: %s" % (bb, sorted(held.get(bb, set()) & set(qa))))
            if not (held.get(bb, set()) & set(qa)):
                r.violate(("Q1", b.nid, "abort written outside the queue mutex"),
                          "the abort flag is written without holding the queue mutex: the worker can test the wait "
                          "predicate, be preempted, miss the notify and park forever (lost wake-up)", body=b, line=a["line"])
    if nq1 < 1:
        r.error("Q1: no write acquisition of `abort` found")

    # ---- Q2: notify after every enabling write
    for b, what in ((post, "push_back"), (stop, "abort-store")):
        notifies = [c.bb for c in b.calls if c.path in NOTIFY]
        if what == "push_back":
            starts = [c for c in b.calls if c.path == DEQUE + "push_back" or c.path == DEQUE + "push_front"]
            start_blocks = [c.target for c in starts]
        else:
            start_blocks = [i for (i, j, v) in _abort_stores(P, b)]
        r.instance(("Q2", b.nid), True, "enabling writes at %s, notifies at %s" % (start_blocks, notifies))
        if not start_blocks:
            r.error("Q2: enabling write (%s) not found in %s" % (what, b.nid))
        for sb in start_blocks:
            if sb in notifies:
                continue
            p = Effects.path_avoiding(b, b.returns, notifies, start=sb)
            if p is not None:
                r.violate(("Q2", b.nid, "no notify after " + what),
                          "a path from the enabling write (%s) to return skips Condvar::notify: a parked worker is never woken" % what,
                          body=b, path=E.describe_path(b, p))

    # ---- Q3: predicate wait
    waits = [(b, c) for b in mod for c in b.calls if c.path in CONDVAR_WAIT]
    if not waits:
        r.error("Q3: no Condvar wait found")
    for (b, c) in waits:
        r.instance(("Q3", b.nid, c.path), True, "wait at bb%d" % c.bb)
        if "timeout" in c.path:
            r.violate(("Q3", b.nid, "timed wait"),
                      "the worker parks with %s: the wait can return while the queue is still empty and abort is not set, "
                      "so the following pop yields `no task` and the worker leaves its loop (or spins) without abort()"
                      % c.path.split("::")[-1], body=b, line=c.line)
            continue
        if c.path.endswith("::wait_while"):
            cl = c.arg_closure(2)
            pb = P.bodies.get(cl) if cl else None
            if pb is None:
                r.error("Q3: wait_while predicate is not a closure in %s" % b.nid)
                continue
            ab, _, _ = _field_acqs(P, pb, "abort")
            emp = [x for x in pb.calls if x.path in (DEQUE + "is_empty", DEQUE + "len")
                   and any(rk == "param" and rd == 2 for (rk, rd, _) in pb.operand_prov(x.args[0]))]
            if not ab:
                r.violate(("Q3", b.nid, "predicate ignores abort"), "the wait predicate does not read the abort flag: "
                          "abort() cannot wake the worker for good", body=pb)
            if not emp:
                r.violate(("Q3", b.nid, "predicate ignores queue emptiness"), "the wait predicate does not test queue emptiness", body=pb)
            # the predicate must return false (stop waiting) on the aborted edge
            if ab:
                _check_predicate_polarity(P, r, pb)
            # .. and otherwise answer exactly `the queue is empty` (keep waiting iff there is nothing to pop)
            if emp:
                _check_predicate_emptiness(P, r, pb, {x.bb for x in emp})
        else:
            fwd = b.reachable_from(c.bb)
            cyc = {x for x in fwd if c.bb in b.reachable_from(x)}
            ab, _, _ = _field_acqs(P, b, "abort")
            emp = [x for x in b.calls if x.bb in cyc and x.path in (DEQUE + "is_empty", DEQUE + "len")]
            if not cyc or not (set(ab) & cyc) or not emp:
                r.violate(("Q3", b.nid, "bare wait outside a re-test loop"),
                          "Condvar::wait is not inside a loop that re-tests both the abort flag and queue emptiness "
                          "(spurious / lost wake-ups)", body=b, line=c.line)

    # ---- Q4 / Q5 / Q8 / Q9 on scheduling
    b = sched
    qa, held, sh = _field_acqs(P, b, "queue")
    ab, _, _ = _field_acqs(P, b, "abort")
    dom = b.dominators()
    pops = [c for c in b.calls if c.path in (DEQUE + "pop_front", DEQUE + "pop_back")]
    wts = [c for c in b.calls if c.path in CONDVAR_WAIT]
    if not pops or not wts:
        r.error("Q4: pop/wait not found in scheduling")
    else:
        for pc in pops:
            r.instance(("Q4", b.nid, "pop"), True, "pop at bb%d under guards %s" % (pc.bb, sorted(held.get(pc.bb, ()))))
            w = wts[0]
            if w.bb not in dom[pc.bb]:
                r.violate(("Q4", b.nid, "pop not after the wait"), "a task can be popped without having waited", body=b, line=pc.line)
            same = held.get(pc.bb, set()) & held.get(w.bb, set()) & set(qa) or (
                held.get(pc.bb, set()) & set(qa) & {a for a in qa if a in dom[w.bb]})
            # the guard moved into wait_while comes back as the same acquisition id
            moved = set(qa) & {a for a in qa if a in dom[w.bb]} & held.get(pc.bb, set())
            if not moved:
                r.violate(("Q4", b.nid, "queue mutex released between wait and pop"),
                          "the queue guard live at pop_front is not the one the wait returned: abort()/post() can interleave "
                          "between the abort re-check and the pop", body=b, line=pc.line)
            # abort re-check: a switch on a value loaded from `abort`, after the wait, whose not-aborted edge dominates the pop
            ok = False
            for i in sorted(b.reach):
                t = b.blocks[i]["term"]
                if t["k"] != "switch" or w.bb not in dom[i]:
                    continue
                d = t["discr"]
                if d["k"] not in ("copy", "move"):
                    continue
                if not _touches(P, b, d, "abort"):
                    continue
                zero = [x for v, x in t["targets"] if v == 0]
                if zero and zero[0] in dom[pc.bb] and b.pred[zero[0]] == [i]:
                    if moved & held.get(i, set()):
                        ok = True
            if not ok:
                r.violate(("Q4", b.nid, "no abort re-check before pop"),
                          "after the wait returns, pop_front is not guarded by a re-check of the abort flag under the same "
                          "queue guard: a task can be taken after abort() returned", body=b, line=pc.line)
    inv = [c for c in b.calls if atom(c) == "fw_call"]
    if not inv:
        r.error("Q5: task invocation not found in scheduling")
    for c in inv:
        r.instance(("Q5", b.nid, "task call"), True, "task invoked at bb%d, guards %s" % (c.bb, sorted(held.get(c.bb, ()))))
        if held.get(c.bb, set()) & set(qa):
            r.violate(("Q5", b.nid, "task runs under the queue mutex"),
                      "the task is invoked while the queue mutex is held: post()/abort() from inside a task self-deadlock and "
                      "posting blocks for the whole task", body=b, line=c.line)
        if held.get(c.bb, set()) & set(ab):
            r.violate(("Q5", b.nid, "task runs under the abort lock"), "task invoked with the abort lock held", body=b, line=c.line)
        # Q9: the invoked task is the popped value
        from_pop = True
        for t in b.operand_prov(c.args[0]):
            if t[0] == "agg":
                continue          # the `None` arm of the same option
            if not any("queue" in g[3] and "[]" in g[3] for g in P.global_cell(b, t, through_helpers="add")):
                from_pop = False
        r.instance(("Q9", b.nid), True, "invoked value derives from pop: %s" % from_pop)
        if not from_pop:
            r.violate(("Q9", b.nid, "invoked task is not the popped one"), "the invoked task does not derive from pop_front()", body=b, line=c.line)
    for c in b.calls:
        if c.path in (DEQUE + "push_back", DEQUE + "push_front"):
            r.violate(("Q9", b.nid, "task re-queued"), "the worker pushes into its own queue: a task may run twice", body=b, line=c.line)

    # Q8: loop exits
    if inv:
        c0 = inv[0]
        fwd = b.reachable_from(c0.bb)
        cyc = {x for x in fwd if c0.bb in b.reachable_from(x)} | ({c0.bb} if c0.bb in fwd else set())
        if not cyc:
            r.violate(("Q8", b.nid, "worker does not loop"), "the worker runs at most one task", body=b)
        exits = [(u, v) for u in cyc for v in b.succ.get(u, []) if v not in cyc]
        r.instance(("Q8", b.nid, "loop exits"), True, "cycle of %d blocks, exit edges %s" % (len(cyc), exits))
        srcs = {u for u, v in exits}
        if len(srcs) != 1:
            r.violate(("Q8", b.nid, "worker loop has %d exit points" % len(srcs)),
                      "the worker loop must have exactly one exit: the `no task because aborted` branch", body=b)
        else:
            u = srcs.pop()
            t = b.blocks[u]["term"]
            ok = False
            if t["k"] == "switch" and t["discr"]["k"] in ("copy", "move"):
                # discriminant of the option that is None only on the aborted edge
                dl = t["discr"]["p"][0]
                src = None
                for d in b.defs.get(dl, []):
                    if d[0] == "assign" and d[1]["rv"]["k"] == "discr":
                        src = d[1]["rv"]["p"][0]
                if src is not None:
                    kinds = set()
                    seen_l, todo = set(), [src]
                    while todo:
                        x = todo.pop()
                        if x in seen_l:
                            continue
                        seen_l.add(x)
                        for d in b.defs.get(x, []):
                            if d[0] == "assign" and len(d[1]["lhs"]) == 1 and d[1]["rv"]["k"] == "use" and \
                                    d[1]["rv"]["op"]["k"] in ("copy", "move") and len(d[1]["rv"]["op"]["p"]) == 1:
                                todo.append(d[1]["rv"]["op"]["p"][0])      # copy / inlined return value
                            elif d[0] == "assign" and d[1]["rv"]["k"] == "agg" and d[1]["rv"].get("variant") == "None":
                                kinds.add("none")
                            elif d[0] == "call" and norm(d[1]["fn"].get("path")) in (DEQUE + "pop_front", DEQUE + "pop_back"):
                                kinds.add("pop")
                            else:
                                kinds.add("other")
                    ok = kinds == {"none", "pop"}
            if not ok:
                r.violate(("Q8", b.nid, "loop exit not tied to abort"),
                          "the worker loop's exit is not the branch on `no task taken (aborted)`: the worker may exit early or never", body=b)
    # sticky abort: only `true` is ever stored
    nst = 0
    for bb_ in mod:
        for (i, j, v) in _abort_stores(P, bb_):
            nst += 1
            r.instance(("Q8", bb_.nid, "abort store"), True, "stores %s" % v)
            if v != "true":
                r.violate(("Q8", bb_.nid, "abort reset"), "the abort flag is stored with %s: abort is no longer sticky" % v, body=bb_)
    if nst < 1:
        r.error("Q8: no store into abort found")

    # ---- Q6: FIFO ends
    ops = set()
    for b_ in mod:
        for c in b_.calls:
            if c.path.startswith(DEQUE):
                ops.add(c.path[len(DEQUE):])
                r.instance(("Q6", b_.nid, c.path[len(DEQUE):]), True, None)
    allowed = {"push_back", "pop_front", "clear", "is_empty", "len", "new"}
    mirrored = {"push_front", "pop_back", "clear", "is_empty", "len", "new"}
    if not (ops <= allowed or ops <= mirrored):
        r.violate(("Q6", AFQ, "queue ends"), "the VecDeque is used with %s: insertion end and removal end are not opposite (FIFO broken)"
                  % sorted(ops - allowed), body=post)
    if "push_back" not in ops and "push_front" not in ops:
        r.error("Q6: no push found")

    # ---- Q7: single worker
    callers = [(x, c) for x in P.bodies.values() for c in x.calls if c.path == AFQ + "::scheduling"]
    spawns = E.sites["spawn"]
    r.instance(("Q7", "scheduling callers"), True, "%s" % [x.nid for x, _ in callers])
    for (x, c) in callers:
        if "THREAD" not in E.role_of(x.id):
            r.violate(("Q7", x.nid, "scheduling called outside the worker thread"),
                      "scheduling() runs somewhere else than the thread spawned by NewThreadScheduler::new", body=x, line=c.line)
    if not callers:
        r.error("Q7: scheduling() has no caller")
    for c in spawns:
        r.instance(("Q7", c.body.nid, "spawn"), True, None)
        if c.body.nid != NTS + "::new":
            r.violate(("Q7", c.body.nid, "thread::spawn outside NewThreadScheduler::new"), "a second kind of thread", body=c.body, line=c.line)
        elif c.body.in_cycle(c.bb):
            r.violate(("Q7", c.body.nid, "spawn in a loop"), "several workers on one queue", body=c.body, line=c.line)
    nb = P.body(NTS + "::new")
    if nb is None or sum(1 for c in spawns if c.body.id == nb.id) != 1:
        r.violate(("Q7", NTS + "::new", "not exactly one spawn"), "NewThreadScheduler::new must start exactly one worker", body=nb)

    # ---- Q12: who may stop the queue: only IScheduler::abort (an explicit abort).  stop() discards what is queued, so
    # any other way of reaching it (a Drop impl, post, a constructor) loses tasks that were posted with no abort pending.
    def _is_abort_entry(x):
        return x.name == "abort" and "IScheduler" in (x.impl_trait or "")
    stop_callers = [(x, c) for x in P.orig.values() for c in x.calls if c.path == AFQ + "::stop"]
    r.instance(("Q12", "stop callers"), True, "%s" % sorted(x.nid for x, _ in stop_callers))
    if not stop_callers:
        r.error("Q12: stop() has no caller")
    seen_q12 = set()
    work_q12 = list(stop_callers)
    while work_q12:
        x, c = work_q12.pop()
        if (x.id, c.bb) in seen_q12:
            continue
        seen_q12.add((x.id, c.bb))
        if _is_abort_entry(x):
            continue
        ups = P.callers_of(x) if (x.kind in ("fn", "assoc") and x.vis != "pub" and not x.impl_trait) else []
        if ups:                                  # a private helper: judged by its callers
            work_q12.extend((P.orig.get(u.id, u), uc) for (u, uc) in ups)
            continue
        r.violate(("Q12", x.nid, "queue stopped outside IScheduler::abort"),
                  "AsyncFunctionQueue::stop() - which discards every queued task - is reached from %s, not from an explicit "
                  "IScheduler::abort: tasks posted while no abort was pending are dropped unrun" % x.nid, body=x, line=c.line)

    # ---- Q13: nothing but the worker loop waits: post / stop / abort return without waiting for another thread (abort is called with
    # StreamController's on_finalize guard held, from a thread the worker may be waiting for: a worker join / condvar wait there deadlocks)
    WAITS = CONDVAR_WAIT | {"std::thread::JoinHandle::join", "std::thread::park", "std::sync::mpsc::Receiver::recv",
                            "std::sync::Barrier::wait", "std::thread::sleep"} if isinstance(CONDVAR_WAIT, (set, frozenset)) else set(CONDVAR_WAIT) | {
                            "std::thread::JoinHandle::join", "std::thread::park", "std::sync::mpsc::Receiver::recv", "std::sync::Barrier::wait", "std::thread::sleep"}
    for x in P.bodies.values():              # inlined views: a private wait helper of the worker loop is judged inside the loop
        if not (x.nid.startswith("schedulers::") or x.nid.startswith("<schedulers::")) or x.kind == "const" or x.id in P.absorbed:
            continue
        for c in x.calls:
            if c.path in WAITS:
                inside_worker = x.nid == AFQ + "::scheduling" or x.nid.startswith(AFQ + "::scheduling::")
                r.instance(("Q13", x.nid, c.path.split("::")[-1]), True, "blocking call in %s" % x.nid)
                if not inside_worker:
                    r.violate(("Q13", x.nid, "blocking wait outside the worker loop"),
                              "%s blocks in %s: scheduler calls made from other threads (post, abort - abort runs under the controller's "
                              "finalize guard) must return without waiting for the worker" % (x.nid, c.path), body=x, line=c.line)

    # ---- Q10: stop clears under the guard, with the flag
    qa, held, sh = _field_acqs(P, stop, "queue")
    clears = [c for c in stop.calls if c.path == DEQUE + "clear"]
    r.instance(("Q10", stop.nid), True, "clear blocks %s" % [c.bb for c in clears])
    if not clears:
        r.violate(("Q10", stop.nid, "queue not cleared"), "stop() does not discard queued tasks", body=stop)
    for c in clears:
        if not (held.get(c.bb, set()) & set(qa)):
            r.violate(("Q10", stop.nid, "clear outside the mutex"), "queue cleared without the mutex", body=stop, line=c.line)
    for (i, j, v) in _abort_stores(P, stop):
        hs = sh[i][j] if i in sh and j < len(sh[i]) else set()
        if not (set(hs) & set(qa)):
            r.violate(("Q10", stop.nid, "flag set outside the mutex"), "abort flag stored without the queue mutex", body=stop)

    # ---- Q11: DefaultScheduler::post runs its argument exactly once, synchronously
    dp = P.body(DEFAULT_POST)
    if dp is None:
        r.error("anchor missing: DefaultScheduler::post")
    else:
        calls = [c for c in dp.calls if c.trait in ("std::ops::Fn", "std::ops::FnMut", "std::ops::FnOnce")
                 and any(rk == "param" and rd == 2 for (rk, rd, _) in dp.operand_prov(c.args[0]))]
        r.instance(("Q11", dp.nid), True, "calls of the task: %s" % [c.bb for c in calls])
        if len(calls) != 1 or dp.in_cycle(calls[0].bb) or Effects.path_avoiding(dp, dp.returns, [calls[0].bb]) is not None:
            r.violate(("Q11", dp.nid, "task not run exactly once"), "DefaultScheduler::post must call its task exactly once on every path", body=dp)
    # wiring of NewThreadScheduler
    for nm, target in ((NTS_POST, AFQ + "::post"), (NTS_ABORT, AFQ + "::stop")):
        nbd = P.body(nm)
        if nbd is None:
            r.error("anchor missing: %s" % nm)
            continue
        tc = [c for c in nbd.calls if c.path == target]
        r.instance(("Q-wiring", nbd.nid), True, None)
        if not tc or Effects.path_avoiding(nbd, nbd.returns, [c.bb for c in tc]) is not None:
            r.violate(("Q-wiring", nbd.nid, "does not reach " + target), "scheduler method does not forward to the queue on every path", body=nbd)

    # ---- L3: queue -> abort only
    for b_ in mod:
        qa, held, _ = _field_acqs(P, b_, "queue")
        ab, _, _ = _field_acqs(P, b_, "abort")
        for bb in qa:
            r.instance(("L3", b_.nid, "queue acquisition"), True, None)
            if held.get(bb, set()) & set(ab):
                r.violate(("L3", b_.nid, "queue acquired under abort"), "lock order inverted (abort -> queue)", body=b_)
    return r


def _check_predicate_polarity(P, r, pb):
    """With the abort flag set the predicate must return false (= stop waiting) on every path,
    whatever the queue holds.  Decided by interpreting the predicate's MIR over the abort bit."""
    from absint import SlotInterp, Unsupported
    # the abort cell as seen from the predicate closure: upvar 0 (self) . data . abort
    cellpaths = set()
    acqs, _, _ = pb.guards()
    for bb, a in acqs.items():
        for (rk, rd, path) in a["cell"]:
            if "abort" in path and rk == "upvar":
                cellpaths.add((rk, rd, path))
    if not cellpaths:
        r.error("Q3: abort read not found in the wait predicate")
        return
    (rk, rd, path) = sorted(cellpaths)[0]
    # bind: treat the closure environment as the tracked object; upvar k is addressed as param "u<k>"
    class _B(dict):
        pass
    interp = SlotInterp(P, (tuple(path),), bool_cells=(0,))
    orig = interp.obj_paths

    def obj_paths(body, prov, binding):
        out = orig(body, prov, binding)
        for (k, d, pth) in prov:
            if k == "upvar" and d == rd and body.id == pb.id:
                out.append(tuple(pth))
        return out
    interp.obj_paths = obj_paths
    try:
        outs = interp.run(pb, (True,), {})
    except Unsupported as e:
        r.error("Q3: cannot interpret the wait predicate: %s" % e)
        return
    rets = sorted({o.ret for o in outs}, key=str)
    r.instance(("Q3", pb.nid, "polarity"), True, "with abort set the predicate returns %s" % rets)
    if any(x != 0 for x in rets):
        r.violate(("Q3", pb.nid, "predicate keeps waiting when aborted"),
                  "with the abort flag set the wait predicate can return %s (must be false on every path): the worker never "
                  "leaves the wait" % [x for x in rets if x != 0], body=pb)


def _empty_test(pb, op, emp_bbs, depth=0):
    """what a boolean operand of the wait predicate says about the queue: "empty" (true iff it is empty), "nonempty", "other" (a
    length test that is neither), None (not a test of the queue)"""
    if depth > 6 or not isinstance(op, dict) or op.get("k") not in ("copy", "move"):
        return None
    out = None
    for t in pb.operand_prov(op):
        if t[0] == "ret" and t[1] in emp_bbs and not t[2]:
            c = pb.call_at(t[1])
            if c is not None and c.path.endswith("::is_empty"):
                out = "empty"
        elif t[0] == "val":
            rv = pb.blocks[t[1][0]]["stmts"][t[1][1]]["rv"]
            if rv.get("k") == "binop" and rv.get("op") in ("Eq", "Ne", "Gt", "Le", "Lt", "Ge"):
                a_, b_ = rv["a"], rv["b"]
                is_len = lambda o: o.get("k") in ("copy", "move") and any(x[0] == "ret" and x[1] in emp_bbs for x in pb.operand_prov(o))
                cst = lambda o: o.get("int") if o.get("k") == "const" and "int" in o else None
                if is_len(a_) and cst(b_) is not None:
                    f = lambda n, c=int(cst(b_)), o=rv["op"]: {"Eq": n == c, "Ne": n != c, "Gt": n > c, "Le": n <= c, "Lt": n < c, "Ge": n >= c}[o]
                elif is_len(b_) and cst(a_) is not None:
                    f = lambda n, c=int(cst(a_)), o=rv["op"]: {"Eq": c == n, "Ne": c != n, "Gt": c > n, "Le": c <= n, "Lt": c < n, "Ge": c >= n}[o]
                else:
                    continue
                tt = [f(n) for n in range(0, 5)]
                out = "empty" if tt == [True, False, False, False, False] else "nonempty" if tt == [False, True, True, True, True] else "other"
            elif rv.get("k") == "unop" and rv.get("op") == "Not":
                inner = _empty_test(pb, rv.get("a"), emp_bbs, depth + 1)
                out = {"empty": "nonempty", "nonempty": "empty"}.get(inner, inner)
    return out


def _check_predicate_emptiness(P, r, pb, emp_bbs):
    """every value the predicate can return is `false` (the aborted / short-circuit edge) or says exactly `the queue is empty`"""
    verdicts = []
    for i in sorted(pb.reach):
        for s_ in pb.blocks[i]["stmts"]:
            if s_["k"] == "assign" and s_["lhs"] == [0]:
                rv = s_["rv"]
                if rv["k"] == "use" and rv["op"]["k"] == "const":
                    verdicts.append("const " + str(rv["op"].get("s")))
                elif rv["k"] == "use":
                    verdicts.append(_empty_test(pb, rv["op"], emp_bbs))
                elif rv["k"] == "unop" and rv.get("op") == "Not":
                    inner = _empty_test(pb, rv.get("a"), emp_bbs)
                    verdicts.append({"empty": "nonempty", "nonempty": "empty"}.get(inner, inner))
                elif rv["k"] == "binop":
                    tmp = {"k": "copy", "p": [0]}
                    verdicts.append(_empty_test(pb, tmp, emp_bbs))
                else:
                    verdicts.append(None)
    for c in pb.calls:
        if c.dest == [0]:
            verdicts.append("empty" if c.path.endswith("::is_empty") and c.bb in emp_bbs else None)
    r.instance(("Q3", pb.nid, "emptiness"), bool(verdicts) and None not in verdicts, "the predicate returns %s" % verdicts)
    for v_ in verdicts:
        if v_ in ("nonempty", "other", "const true"):
            r.violate(("Q3", pb.nid, "predicate does not wait for `queue empty`"),
                      "the wait predicate can return %s: the worker must keep waiting exactly while the queue is empty and abort is not set "
                      "(otherwise it pops `no task` and leaves its loop, or sleeps on work that is there)"
                      % {"nonempty": "`queue is NOT empty`", "other": "a length test that is not `queue is empty`", "const true": "`true` unconditionally"}[v_], body=pb)
            break
