"""Observer / FunctionWrapper / StreamController rules (DESIGN 5.4): O-typestate,
O-who-may-invoke, O-unsub-order, F-atomic-take, F-no-guard-call, S-gate,
S-finalize-after-terminal, S-finalize-shape, S-remove-and-test."""
import itertools
from core import RuleResult
from effects import *
from absint import SlotInterp, Unsupported

USER_SLOTS = (("fn_next", "inner"), ("fn_error", "inner"), ("fn_complete", "inner"))
TEARDOWN_SLOT = ("fn_on_unsubscribe",)
OBS_CELLS = USER_SLOTS + (TEARDOWN_SLOT,)
TERMINAL_FLAG = ("terminated",)      # tracked as a bool cell when the field exists
EVENTS = ("next", "error", "complete", "unsubscribe")
SLOT_NAME = {("fn_next",): "next", ("fn_error",): "error", ("fn_complete",): "complete"}


def _observer_method(P, name):
    return P.body(OBSERVER + "::" + name)


def _observer_cells(P):
    adt = P.adts.get(OBSERVER) or {}
    fields = {f["name"] for v in adt.get("variants", []) for f in v["fields"]}
    if TERMINAL_FLAG[0] in fields:
        return OBS_CELLS + (TERMINAL_FLAG,), (len(OBS_CELLS),)
    return OBS_CELLS, ()


def observer_summaries(P):
    """For each Observer method and each slot state: the set of (user invocations, new state).
    Extracted by abstract interpretation of the MIR (absint.SlotInterp)."""
    cells, bools = _observer_cells(P)
    interp = SlotInterp(P, cells, bool_cells=bools)
    table = {}
    for ev in EVENTS + ("is_subscribed",):
        b = _observer_method(P, ev)
        if b is None:
            raise Unsupported("anchor missing: Observer::%s" % ev)
        for bits in itertools.product((True, False), repeat=len(cells)):
            outs = interp.run(b, bits, {1: ()})
            res = set()
            for o in outs:
                inv = tuple(SLOT_NAME.get(s[:1], None) for (k, s) in o.effects
                            if k == "invoke" and s is not None and s[:1] in SLOT_NAME)
                tear = sum(1 for (k, s) in o.effects if k == "invoke" and s is not None
                           and s[:1] == TEARDOWN_SLOT)
                res.add((inv, o.state, o.ret, tear))
            table[(ev, bits)] = res
    return table


def o_typestate(P, E, kinds=None):
    r = RuleResult("O-typestate",
                   "slot automaton of Observer extracted from MIR: no user callback after a "
                   "terminal callback, at most one terminal, none after unsubscribe, "
                   "is_subscribed false after either, slots never refilled")
    try:
        table = observer_summaries(P)
    except Unsupported as e:
        r.error("cannot summarise Observer methods: %s" % e)
        return r
    # explore: node = (slot bits, terminal_seen, unsub_seen); start = all user slots present
    witnesses = {}
    ncells = len(_observer_cells(P)[0])
    for t_present in (True, False):
        start = ((True, True, True, t_present) + ((False,) if ncells == 5 else ()), False, False)
        seen = {start: ()}
        work = [start]
        while work:
            node = work.pop()
            bits, term, unsub = node
            hist = seen[node]
            # (iv) is_subscribed must be false after a terminal / unsubscribe
            for (inv, st2, ret, _) in table[("is_subscribed", bits)]:
                r.instance(("state", str(bits[:3]), "term" if term else "", "unsub" if unsub else ""),
                           term or unsub, None)
                if (term or unsub) and ret != 0:
                    witnesses.setdefault(("is_subscribed not false", "after " + ("terminal" if term else "unsubscribe")),
                                         hist + ("is_subscribed",))
            # (vii) liveness: a live observer (no terminal, not unsubscribed) reports is_subscribed and delivers
            if not term and not unsub:
                for (inv, st2, ret, _) in table[("is_subscribed", bits)]:
                    if ret == 0:
                        witnesses.setdefault(("live delivery lost", "is_subscribed false on a live observer"), hist + ("is_subscribed",))
                for ev in ("next", "error", "complete"):
                    for (inv, st2, ret, tear) in table[(ev, bits)]:
                        if list(inv) != [ev]:
                            witnesses.setdefault(("live delivery lost", "%s on a live observer invokes %s" % (ev, list(inv) or "nothing")), hist + (ev,))
            if len(hist) >= 6:
                continue
            for ev in EVENTS:
                for (inv, st2, ret, tear) in table[(ev, bits)]:
                    h2 = hist + (ev,)
                    for slot in inv:
                        if term:
                            witnesses.setdefault(("callback after terminal", "%s delivered after a terminal" % slot), h2)
                        if unsub:
                            witnesses.setdefault(("callback after unsubscribe", "%s delivered after unsubscribe" % slot), h2)
                    nterm = term or any(s in ("error", "complete") for s in inv)
                    # (vi) a terminal releases all three callbacks (nothing keeps owning them)
                    if any(s in ("error", "complete") for s in inv) and any(st2[:3]):
                        left = [SLOT_NAME[USER_SLOTS[i][:1]] for i in range(3) if st2[i]]
                        witnesses.setdefault(("callback kept after terminal", "%s slot still set after %s" % ("/".join(left), ev)), h2)
                    if sum(1 for s in inv if s in ("error", "complete")) > 1:
                        witnesses.setdefault(("two terminals in one call", ev), h2)
                    # (v) never refilled
                    for i in range(3):
                        if st2[i] and not bits[i]:
                            witnesses.setdefault(("slot refilled", SLOT_NAME[USER_SLOTS[i][:1]]), h2)
                    n2 = (st2, nterm, unsub or ev == "unsubscribe")
                    if n2 not in seen:
                        seen[n2] = h2
                        work.append(n2)
        r.instance(("automaton", "teardown slot %s" % t_present), True,
                   "%d reachable (slots, terminal-seen, unsubscribed) states explored exhaustively" % len(seen))
    for (kind, detail), hist in sorted(witnesses.items()):
        if kinds is not None and kind not in kinds:
            continue
        r.violate((OBSERVER, kind, detail),
                  "Observer slot automaton: %s (%s); shortest history: %s"
                  % (kind, detail, " . ".join(hist)),
                  body=_observer_method(P, "next"), path=list(hist))
    return r


def o_who_may_invoke(P, E):
    r = RuleResult("O-who-may-invoke", "the three user slots of Observer are private and invoked "
                                       "only inside impl Observer")
    adt = P.adts.get(OBSERVER)
    if not adt:
        r.error("anchor missing: struct Observer")
        return r
    fields = {f["name"]: f for v in adt["variants"] for f in v["fields"]}
    for fn in ("fn_next", "fn_error", "fn_complete", "fn_on_unsubscribe"):
        if fn not in fields:
            r.error("anchor missing: Observer.%s" % fn)
            continue
        r.instance((OBSERVER, fn, "private"), True, "field visibility")
        if fields[fn]["pub"]:
            r.violate((OBSERVER, fn, "public field"), "Observer.%s is public: user callbacks "
                      "reachable outside the summarised methods" % fn)
    # every access path to the slots: any body whose provenance reaches Observer.fn_* fields
    for b in P.bodies.values():
        for c in b.calls:
            if not c.args:
                continue
            a = atom(c)
            if a not in ("fw_call", "fw_clear", "fw_exists"):
                continue
            for (rk, rd, path) in b.operand_prov(c.args[0]):
                if path and path[0] in ("fn_next", "fn_error", "fn_complete") and rk == "param":
                    t = ty_adt(b.locals[rd]["ty"])
                    if norm(t or "") == OBSERVER:
                        r.instance((b.nid, path[0], c.name), True, "slot access")
                        if not b.nid.startswith(OBSERVER + "::"):
                            r.violate((b.nid, path[0], "slot accessed outside impl Observer"),
                                      "user slot touched outside impl Observer", body=b, line=c.line)
    return r


def _find_calls(b, pred):
    return [c for c in b.calls if pred(c)]


def o_unsub_order(P, E):
    r = RuleResult("O-unsub-order", "Observer::unsubscribe clears the three user slots before it "
                                    "runs the teardown, and empties the teardown slot on every path")
    b = _observer_method(P, "unsubscribe")
    if b is None:
        r.error("anchor missing: Observer::unsubscribe")
        return r

    def slot_of(c):
        for (rk, rd, path) in b.operand_prov(c.args[0]):
            if rk == "param" and rd == 1 and path:
                return path[0]
        return None

    clears = {}
    for c in b.calls:
        if atom(c) == "fw_clear":
            clears.setdefault(slot_of(c), []).append(c.bb)
    teardown_calls = [c for c in b.calls if atom(c) == "fw_call" and slot_of(c) == "fn_on_unsubscribe"]
    if not teardown_calls:
        r.error("anchor missing: teardown invocation in Observer::unsubscribe")
    for s in ("fn_next", "fn_error", "fn_complete"):
        r.instance((OBSERVER + "::unsubscribe", "clear " + s), True, "clear blocks %s" % clears.get(s))
        if s not in clears:
            r.violate((OBSERVER + "::unsubscribe", "slot %s not cleared" % s),
                      "unsubscribe does not clear %s" % s, body=b)
            continue
        # every path to return passes a clear of s
        if Effects.path_avoiding(b, b.returns, clears[s]) is not None:
            r.violate((OBSERVER + "::unsubscribe", "slot %s not cleared on some path" % s),
                      "a path through unsubscribe skips clearing %s" % s, body=b)
        for tc in teardown_calls:
            if Effects.path_avoiding(b, [tc.bb], clears[s]) is not None:
                r.violate((OBSERVER + "::unsubscribe", "teardown before clear of %s" % s),
                          "the teardown action can run before %s is cleared" % s, body=b, line=tc.line)
    # teardown slot emptied on every path: via the typestate interpreter
    try:
        interp = SlotInterp(P, OBS_CELLS)
        for bits in itertools.product((True, False), repeat=4):
            for o in interp.run(b, bits, {1: ()}):
                r.instance((OBSERVER + "::unsubscribe", "teardown slot emptied", str(bits)), True, None)
                if o.state[3]:
                    r.violate((OBSERVER + "::unsubscribe", "teardown slot survives"),
                              "a path through unsubscribe leaves fn_on_unsubscribe set "
                              "(ownership cycle through the teardown closure is not cut)", body=b)
                if any(o.state[:3]):
                    r.violate((OBSERVER + "::unsubscribe", "user slot survives"),
                              "a path through unsubscribe leaves a user slot set", body=b)
    except Unsupported as e:
        r.error("cannot interpret Observer::unsubscribe: %s" % e)
    return r


# --------------------------------------------------------------------------- FunctionWrapper

def _inner_guard_acqs(b):
    acqs, held, stmt_held = b.guards()
    out = {}
    for bb, a in acqs.items():
        if any(rk == "param" and rd == 1 and path[:1] == ("inner",) for (rk, rd, path) in a["cell"]):
            out[bb] = a
    return out, held, stmt_held


def _invoke_blocks(b):
    out = []
    for c in b.calls:
        if c.trait in ("std::ops::Fn", "std::ops::FnMut", "std::ops::FnOnce"):
            st = c.targs[0] if c.targs else {}
            if st.get("k") not in ("closure",):
                out.append(c)
    return out


def _invocation_sites(P, E, b):
    """[(bb in b, line)] where the wrapped callable runs: a dyn Fn call in b itself (helpers are
    already inlined) or inside a closure b hands to an inline std combinator (Option::map ..)."""
    out = [(c.bb, c.line) for c in _invoke_blocks(b)]
    for c in b.calls:
        for t in E.inline_targets(c):
            if t.kind == "closure" and (_invoke_blocks(t) or any(_invoke_blocks(x) for x in P.descendants(t))):
                out.append((c.bb, c.line))
    return out


def f_no_guard_call(P, E):
    r = RuleResult("F-no-guard-call", "FunctionWrapper invokes the callable with no guard of "
                                      "`inner` held")
    ms = [b for b in P.methods_of(FW) if b.id not in P.absorbed]
    if not ms:
        r.error("anchor missing: impl FunctionWrapper")
    n = 0
    for b in ms:
        acqs, held, _ = _inner_guard_acqs(b)
        for (bb, line) in _invocation_sites(P, E, b):
            n += 1
            r.instance((b.nid, "invoke"), True, "invocation with guards %s" % sorted(held.get(bb, ())))
            if held.get(bb, set()) & set(acqs):
                r.violate((b.nid, "callable invoked under inner guard"),
                          "the wrapped callable runs while the wrapper's own lock is held: any "
                          "re-entrant use of the same wrapper self-deadlocks", body=b, line=line)
    if n < 3:
        r.error("expected >= 3 callable invocations in impl FunctionWrapper, found %d" % n)
    return r


def f_slot_truth(P, E):
    """The slot cell (`inner`) is the only owner of the wrapped callable and every query / invocation goes
    through it: then emptying the slot revokes the callable for everybody, which is what the terminal
    and unsubscribe logic of Observer relies on."""
    r = RuleResult("F-slot-truth", "FunctionWrapper: the callable is owned only by the slot cell, and exists/empty/call* read that cell")
    a = P.adts.get(FW)
    if a is None or len(a["variants"]) != 1:
        r.error("anchor missing: struct FunctionWrapper")
        return r

    def mentions_callable(t, depth=0):
        if not isinstance(t, dict) or depth > 10:
            return False
        if t.get("k") == "dyn":
            return True
        if t.get("k") == "adt" and norm(t.get("path") or "").endswith("FunctionWrapperInner"):
            return True
        return any(mentions_callable(x, depth + 1) for x in (t.get("args") or [])) or mentions_callable(t.get("inner"), depth + 1)
    owners = [f["name"] for f in a["variants"][0]["fields"] if mentions_callable(f["ty"])]
    r.instance((FW, "owners of the callable"), True, "fields %s" % owners)
    if len(owners) != 1:
        r.violate((FW, "callable owned outside the slot"),
                  "FunctionWrapper has %d fields that can reach the wrapped callable (%s): a handle that bypasses the slot's lock "
                  "keeps the callable invocable (or 'existing') after the slot was emptied" % (len(owners), owners))
    for b in P.methods_of(FW):
        if b.id in P.absorbed or b.name in ("new", "clone") or b.impl_trait:
            continue
        acqs, _, _ = _inner_guard_acqs(b)
        ret_bool = b.locals[0]["ty"].get("s") == "bool"
        inv = _invocation_sites(P, E, b)
        if not (ret_bool or inv):
            continue
        r.instance((b.nid, "reads the slot"), True, "inner acquisitions %s" % sorted(acqs))
        delegates = [c for c in b.calls if c.path.startswith(FW + "::") and c.args and
                     all(rk == "param" and rd == 1 and not path for (rk, rd, path) in b.operand_prov(c.args[0]))]
        if not acqs and delegates and not _invoke_blocks(b):
            continue          # answers through another method of the same wrapper, which is checked itself
        if not acqs:
            r.violate((b.nid, "does not read the slot"),
                      "%s answers / invokes without acquiring the slot cell: it cannot see that the slot was emptied" % b.nid, body=b)
            continue
        for c in _invoke_blocks(b):
            prov = b.operand_prov(c.args[0]) if c.args else frozenset()
            if prov and not any(rk == "param" and rd == 1 and path[:1] == ("inner",) for (rk, rd, path) in prov):
                r.violate((b.nid, "callable not taken from the slot"),
                          "the callable invoked in %s does not come out of the slot cell (%s)" % (b.nid, sorted(b.term_name(t) for t in prov)),
                          body=b, line=c.line)
    return r


def f_atomic_take(P, E):
    r = RuleResult("F-atomic-take", "call_and_clear_if_available tests, clones out and clears the "
                                    "slot under ONE write guard and invokes after releasing it")
    b = P.body(FW + "::call_and_clear_if_available")
    if b is None:
        r.error("anchor missing: FunctionWrapper::call_and_clear_if_available")
        return r
    acqs, held, stmt_held = _inner_guard_acqs(b)
    r.instance((b.nid, "acquisitions"), True, "inner acquisitions: %s" % {k: v["mode"] for k, v in acqs.items()})
    if len(acqs) != 1 or list(acqs.values())[0]["mode"] not in ("W", "M"):
        r.violate((b.nid, "not a single write acquisition"),
                  "the take is not done under exactly one write guard of `inner` (found %s): "
                  "two callers can both observe the callback present and both invoke it"
                  % [v["mode"] for v in acqs.values()], body=b)
        return r
    acq = list(acqs)[0]
    # the None store and the discriminant test must be under that guard
    stores, tests = [], []
    for i in sorted(b.reach):
        for j, s in enumerate(b.blocks[i]["stmts"]):
            if s["k"] != "assign":
                continue
            if len(s["lhs"]) > 1 and any(rk == "param" and rd == 1 and path[:1] == ("inner",) and len(path) == 1
                                          for (rk, rd, path) in b.place_prov(s["lhs"])):
                stores.append((i, j))
            if s["rv"]["k"] == "discr" and "*" in s["rv"]["p"] and any(rk == "param" and rd == 1 and path == ("inner",)
                                                for (rk, rd, path) in b.place_prov(s["rv"]["p"])):
                tests.append((i, j))
    for c in b.calls:
        if c.path in ("std::option::Option::is_some", "std::option::Option::is_none", "std::option::Option::take"):
            if any(rk == "param" and rd == 1 and path == ("inner",) for (rk, rd, path) in b.operand_prov(c.args[0])):
                tests.append((c.bb, None))
                if c.path.endswith("take"):
                    stores.append((c.bb, None))
    if not stores:
        r.violate((b.nid, "slot not cleared"), "call_and_clear_if_available never stores None into `inner`", body=b)
    if not tests:
        r.error("presence test of `inner` not found in call_and_clear_if_available")
    for (i, j) in stores + tests:
        hs = stmt_held[i][j] if (j is not None and i in stmt_held) else held.get(i, set())
        r.instance((b.nid, "under guard", "bb%d" % i), True, None)
        if acq not in hs:
            r.violate((b.nid, "test/clear outside the write guard"),
                      "presence test or clear of `inner` happens outside the single write guard", body=b)
    # it is a *take*: interpreted over the presence bit of `inner` (path-sensitive):
    # present -> exactly one invocation and the slot ends empty; absent -> no invocation
    try:
        interp = SlotInterp(P, (("inner",),))
        for present in (True, False):
            outs = interp.run(b, (present,), {1: (), "__slot__": ()})
            for o in outs:
                ninv = sum(1 for e in o.effects if e[0] == "invoke")
                r.instance((b.nid, "take semantics", str(present)), True, None)
                if present and (ninv != 1 or o.state[0]):
                    r.violate((b.nid, "not a take"),
                              "with the callback present, a path invokes it %d time(s) and leaves the "
                              "slot %s: a terminal could fire twice" % (ninv, "set" if o.state[0] else "empty"),
                              body=b)
                if not present and ninv:
                    r.violate((b.nid, "invokes an absent callback"), "invocation although the slot was empty", body=b)
    except Unsupported as e:
        r.error("cannot interpret call_and_clear_if_available: %s" % e)
    return r


# --------------------------------------------------------------------------- StreamController

def _sctl(P, name):
    return P.body(SCTL + "::" + name)


def _subscriber_call(b, c, names):
    if atom(c) not in names:
        return False
    return any(rk == "param" and rd == 1 and path[:1] == ("subscriber",) for (rk, rd, path) in b.operand_prov(c.args[0]))


def _gate_true_blocks(b):
    """Blocks reachable only through the true edge of a branch on self.subscriber.is_subscribed()."""
    gates = []
    for c in b.calls:
        if atom(c) == "is_subscribed" and any(rk == "param" and rd == 1 and path[:1] == ("subscriber",)
                                               for (rk, rd, path) in b.operand_prov(c.args[0])):
            gates.append(c)
    return _branches_on_calls(b, gates)


def _branches_on_calls(b, gates):
    out = []
    for g in gates:
        # every switch whose discriminant is (a copy of) the gate's result
        for tb in sorted(b.reach):
            t = b.blocks[tb]["term"]
            if t["k"] != "switch":
                continue
            d = t["discr"]
            if d["k"] not in ("copy", "move"):
                continue
            if not any(rk == "ret" and rd == g.bb and not path for (rk, rd, path) in b.operand_prov(d)):
                continue
            false_t = [bb for v, bb in t["targets"] if v == 0]
            true_t = t["otherwise"]
            out.append(dict(gate=g, switch=tb, true=true_t, false=false_t[0] if false_t else None))
    return out


def s_gate(P, E):
    r = RuleResult("S-gate", "every delivery of StreamController to its subscriber is dominated by "
                             "the true edge of subscriber.is_subscribed()")
    n = 0
    for name in ("sink_next", "sink_error", "sink_complete", "sink_complete_force"):
        b = _sctl(P, name)
        if b is None:
            r.error("anchor missing: StreamController::%s" % name)
            continue
        gates = _gate_true_blocks(b)
        dom = b.dominators()
        if not gates:
            r.violate((b.nid, "no is_subscribed gate"),
                      "the sink does not consult subscriber.is_subscribed() at all", body=b)
        for c in b.calls:
            if _subscriber_call(b, c, ("obs_next", "obs_error", "obs_complete")):
                n += 1
                ok = False
                for g in gates:
                    # dominated by the true target, and the true target is entered only from the switch
                    if g["true"] in dom[c.bb] and b.pred[g["true"]] == [g["switch"]] and g["true"] != g["false"]:
                        ok = True
                r.instance((b.nid, atom(c)), True, "delivery at bb%d, gates %s" % (c.bb, [g["switch"] for g in gates]))
                if not ok:
                    r.violate((b.nid, "ungated " + atom(c)),
                              "delivery to the subscriber is not guarded by is_subscribed()", body=b, line=c.line)
    # .. and on that edge the delivery is unconditional: nothing else (the number of registered upstreams, a flag) decides
    # whether a live subscriber gets the event
    for name, want in (("sink_next", "obs_next"), ("sink_error", "obs_error"), ("sink_complete_force", "obs_complete")):
        b = _sctl(P, name)
        if b is None:
            continue
        dl = {c.bb for c in b.calls if _subscriber_call(b, c, (want,))}
        gates_ = [g for g in _gate_true_blocks(b) if g["true"] != g["false"]]
        if not dl or not gates_:
            continue
        # a return reached without delivering and without ever taking the not-subscribed edge of the gate
        false_edges = {(g["switch"], g["false"]) for g in gates_ if g["false"] is not None}
        seen_, work_ = {0}, [0]
        leak = False
        while work_:
            x = work_.pop()
            if x in b.returns:
                leak = True
                break
            for y in b.succ.get(x, []):
                if y in dl or (x, y) in false_edges or y in seen_:
                    continue
                seen_.add(y)
                work_.append(y)
        r.instance((b.nid, "unconditional " + want), True, None)
        if leak:
            r.violate((b.nid, "delivery depends on more than is_subscribed"),
                      "%s can return without delivering although the subscriber was not found unsubscribed: the event is lost for a "
                      "live subscription" % name, body=b)
    if n < 4:
        r.error("expected >= 4 subscriber deliveries in StreamController::sink_*, found %d" % n)
    # all deliveries to `subscriber` anywhere in impl StreamController must be in the sinks
    for b in P.methods_of(SCTL) + [d for m in P.methods_of(SCTL) for d in P.descendants(m)]:
        for c in b.calls:
            if atom(c) in ("obs_next", "obs_error", "obs_complete") and b.name not in (
                    "sink_next", "sink_error", "sink_complete", "sink_complete_force"):
                if any(path[:1] == ("subscriber",) for (_, _, path) in b.operand_prov(c.args[0])):
                    r.violate((b.nid, "delivery outside sink_*"), "subscriber delivery outside the gated sinks",
                              body=b, line=c.line)
    return r


def s_finalize_after_terminal(P, E):
    r = RuleResult("S-finalize-after-terminal",
                   "in sink_error/sink_complete/sink_complete_force every path from a downstream "
                   "terminal to return passes finalize(); the not-subscribed edge finalizes too")
    for name in ("sink_error", "sink_complete", "sink_complete_force", "sink_next"):
        b = _sctl(P, name)
        if b is None:
            r.error("anchor missing: StreamController::%s" % name)
            continue
        fins = [c.bb for c in b.calls if atom(c) == "finalize"]
        for c in b.calls:
            if _subscriber_call(b, c, ("obs_error", "obs_complete")):
                r.instance((b.nid, "terminal->finalize"), True, "terminal bb%d finalize %s" % (c.bb, fins))
                p = Effects.path_avoiding(b, b.returns, fins, start=c.target) if c.target not in fins else None
                if p is not None:
                    r.violate((b.nid, "terminal without finalize"),
                              "a downstream terminal is delivered and the controller returns without "
                              "finalize(): upstream stays subscribed", body=b, line=c.line,
                              path=E.describe_path(b, p))
        gts = _gate_true_blocks(b)
        if not gts:
            r.instance((b.nid, "dead-subscriber->finalize"), True, "no gate")
            if not fins or Effects.path_avoiding(b, b.returns, fins) is not None:
                r.violate((b.nid, "dead subscriber without finalize"),
                          "the sink has no is_subscribed() branch and does not finalize on every path: an upstream "
                          "registered after the subscription ended is never torn down", body=b)
        for g in gts:
            if g["false"] is None:
                continue
            r.instance((b.nid, "dead-subscriber->finalize"), True, None)
            if g["false"] in fins:
                continue
            p = Effects.path_avoiding(b, b.returns, fins, start=g["false"])
            if p is not None:
                r.violate((b.nid, "dead subscriber without finalize"),
                          "when the subscriber is gone the sink returns without finalize(): "
                          "upstream is never torn down", body=b, path=E.describe_path(b, p))
    return r


def s_remove_and_test(P, E):
    r = RuleResult("S-remove-and-test", "sink_complete removes its serial and tests emptiness under "
                                        "one write guard of `unscribers`, and completes downstream "
                                        "after releasing it")
    b = _sctl(P, "sink_complete")
    if b is None:
        r.error("anchor missing: StreamController::sink_complete")
        return r
    acqs, held, _ = b.guards()
    ua = {bb: a for bb, a in acqs.items()
          if any(rk == "param" and rd == 1 and path[:1] == ("unscribers",) for (rk, rd, path) in a["cell"])}
    rem = [c for c in b.calls if c.path == "std::collections::HashMap::remove"]
    tst = [c for c in b.calls if c.path in ("std::collections::HashMap::len", "std::collections::HashMap::is_empty")]
    # first of all: ONE exclusive critical section on the map (whatever the test looks like)
    r.instance((b.nid, "critical section"), True, "unscribers acquisitions %s" % {k: v["mode"] for k, v in ua.items()})
    if len(ua) != 1 or list(ua.values())[0]["mode"] not in ("W", "M"):
        r.violate((b.nid, "remove and emptiness test under different guards"),
                  "sink_complete does not remove its entry and decide `last one out` in ONE write-locked section of the map "
                  "(acquisitions: %s): two inputs completing together can both, or neither, see themselves as the last"
                  % [v["mode"] for v in ua.values()], body=b)
        return r
    if not rem or not tst:
        r.error("anchor missing: remove/len on unscribers in sink_complete")
        return r
    r.instance((b.nid, "remove+test"), True, "acq %s remove %s test %s" % (list(ua), [c.bb for c in rem], [c.bb for c in tst]))
    for c in rem + tst:
        hs = held.get(c.bb, set()) & set(ua)
        if not hs:
            r.violate((b.nid, "unguarded " + c.name), "%s on unscribers without its guard" % c.name, body=b, line=c.line)
    common = None
    for c in rem + tst:
        hs = held.get(c.bb, set()) & set(ua)
        common = hs if common is None else (common & hs)
    if not common:
        r.violate((b.nid, "remove and emptiness test under different guards"),
                  "two inputs completing concurrently can both (or neither) observe `last one out`", body=b)
    for a in ua.values():
        if a["mode"] not in ("W", "M"):
            r.violate((b.nid, "remove under read guard"), "unscribers mutated under a non-write guard", body=b)
    for c in b.calls:
        if _subscriber_call(b, c, ("obs_complete",)) or atom(c) == "finalize":
            if held.get(c.bb, set()) & set(ua):
                r.violate((b.nid, "emission under unscribers guard"),
                          "downstream completion/finalize runs while the unscribers guard is held", body=b, line=c.line)
    # polarity: the downstream completion sits on the EMPTY edge of the emptiness test, and only there
    comps = [c.bb for c in b.calls if _subscriber_call(b, c, ("obs_complete",))]
    tested = False
    for tb in sorted(b.reach):
        t = b.blocks[tb]["term"]
        if t["k"] != "switch" or t["discr"]["k"] not in ("copy", "move"):
            continue
        pol = _emptiness_polarity(b, t["discr"], {c.bb for c in tst})
        if pol is None:
            continue
        tested = True
        zero_t = [x for v_, x in t["targets"] if v_ == 0]
        false_bb = zero_t[0] if zero_t else t["otherwise"]
        true_bb = t["otherwise"] if zero_t else None
        if true_bb is None:
            continue
        empty_bb, other_bb = (true_bb, false_bb) if pol else (false_bb, true_bb)
        r.instance((b.nid, "last one out"), True, "emptiness switch bb%d: empty edge -> bb%d" % (tb, empty_bb))
        if comps and not any(cb in b.reachable_from(empty_bb) or cb == empty_bb for cb in comps):
            r.violate((b.nid, "completion not on the empty edge"),
                      "when the last upstream has completed (the map is empty) sink_complete does not complete downstream", body=b, line=t.get("line"))
        if any((cb in b.reachable_from(other_bb) or cb == other_bb) for cb in comps):
            r.violate((b.nid, "completion while upstreams remain"),
                      "sink_complete completes downstream on the edge where other upstreams are still registered", body=b, line=t.get("line"))
    if comps and not tested:
        r.violate((b.nid, "completion does not depend on the emptiness test"),
                  "sink_complete's downstream completion is not decided by whether the map became empty", body=b)
    return r


def _emptiness_polarity(b, discr, test_bbs, depth=0):
    """True if the (boolean) operand is `map is empty`, False if it is its negation, None if unrelated"""
    if depth > 5 or discr.get("k") not in ("copy", "move"):
        return None
    out = None
    for t in b.operand_prov(discr):
        if t[0] == "ret" and t[1] in test_bbs and not t[2]:
            c = b.call_at(t[1])
            if c is not None and c.path.endswith("::is_empty"):
                out = True
        elif t[0] == "val":
            rv = b.blocks[t[1][0]]["stmts"][t[1][1]]["rv"]
            if rv.get("k") == "binop" and rv.get("op") in ("Eq", "Ne", "Gt", "Le", "Lt", "Ge"):
                ops = (rv["a"], rv["b"])
                lens = [o for o in ops if o.get("k") in ("copy", "move") and
                        any(x[0] == "ret" and x[1] in test_bbs for x in b.operand_prov(o))]
                zero = [o for o in ops if o.get("k") == "const" and o.get("int") in (0, 1)]
                if len(lens) == 1 and len(zero) == 1:
                    z = zero[0]["int"]
                    len_first = ops[0] is lens[0]
                    op = rv["op"]
                    if z == 0:
                        out = {"Eq": True, "Ne": False, "Gt": (False if len_first else None), "Le": (True if len_first else None),
                               "Lt": (None if len_first else False), "Ge": (None if len_first else True)}.get(op)
                    else:       # len < 1  /  len >= 1
                        out = {"Lt": (True if len_first else None), "Ge": (False if len_first else None)}.get(op)
            elif rv.get("k") == "unop" and rv.get("op") == "Not":
                inner = _emptiness_polarity(b, rv.get("a") or rv.get("op_"), test_bbs, depth + 1)
                out = None if inner is None else (not inner)
    return out


def s_finalize_shape(P, E):
    r = RuleResult("S-finalize-shape", "finalize runs every unscribers entry, clears the map and "
                                       "takes-and-runs on_finalize on every path")
    b = _sctl(P, "finalize")
    if b is None:
        r.error("anchor missing: StreamController::finalize")
        return r

    def on(c, field):
        return c.args and any(rk == "param" and rd == 1 and path[:1] == (field,) for (rk, rd, path) in b.operand_prov(c.args[0]))

    iters = [c for c in b.calls if c.path in ("std::collections::HashMap::iter", "std::collections::HashMap::values",
                                              "std::collections::HashMap::drain", "std::iter::IntoIterator::into_iter") and on(c, "unscribers")]
    clears = [c for c in b.calls if c.path in ("std::collections::HashMap::clear", "std::collections::HashMap::drain") and on(c, "unscribers")]
    runs = []
    for c in b.calls:
        # an entry of the map is invoked: directly inside a loop of finalize, or by a closure
        # handed to an iteration call
        if atom(c) == "fw_call" and b.in_cycle(c.bb) and any("unscribers" in path and "[]" in path
                                                            for (_, _, path) in b.operand_prov(c.args[0])):
            runs.append(c)
        if c.path in ("std::iter::Iterator::for_each", "std::iter::Iterator::map", "std::iter::Iterator::all"):
            for t in E.inline_targets(c):
                if any(atom(x) == "fw_call" for x in t.calls) and c.args and on(c, "unscribers"):
                    runs.append(c)
    r.instance((b.nid, "run entries"), True, "iter %s run %s clear %s" % ([c.bb for c in iters], [c.bb for c in runs], [c.bb for c in clears]))
    if not runs:
        r.violate((b.nid, "entries not run"), "finalize does not invoke every registered upstream unsubscribe action", body=b)
    else:
        # the iteration that runs the entries is entered on every path: its iterator is created on every path
        heads = [c.bb for c in iters] or [c.bb for c in runs]
        if Effects.path_avoiding(b, b.returns, heads) is not None:
            r.violate((b.nid, "entries not run on some path"), "a path through finalize skips the upstream unsubscribe actions", body=b)
    if not clears or Effects.path_avoiding(b, b.returns, [c.bb for c in clears]) is not None:
        r.violate((b.nid, "unscribers not cleared"), "finalize does not clear the upstream map on every path "
                  "(handlers -> sctl -> unscribers -> observer -> handlers cycle survives)", body=b)
    # on_finalize: invoked and set to None
    of_calls = [c for c in b.calls if atom(c) == "fw_call" and on(c, "on_finalize")]
    of_acq = [bb for bb, a in b.guards()[0].items()
              if any(rk == "param" and rd == 1 and path[:1] == ("on_finalize",) for (rk, rd, path) in a["cell"])]
    r.instance((b.nid, "on_finalize"), True, "calls %s" % [c.bb for c in of_calls])
    if not of_calls:
        r.violate((b.nid, "on_finalize not run"), "finalize never runs the on_finalize action (scheduler threads leak)", body=b)
    try:
        interp = SlotInterp(P, (("on_finalize",),), opaque_ok={SCTL + "::finalize"})
        for present in (True, False):
            for o in interp.run(b, (present,), {1: ()}):
                inv = [e for e in o.effects if e[0] == "invoke" and e[1] and e[1][:1] == ("on_finalize",)]
                r.instance((b.nid, "on_finalize take", str(present)), True, None)
                if present and not inv:
                    r.violate((b.nid, "on_finalize skipped"), "a path through finalize with on_finalize set does not run it", body=b)
                if o.state[0]:
                    r.violate((b.nid, "on_finalize survives"), "finalize leaves on_finalize set: it would run again and "
                              "the scheduler/queue/task cycle is not cut", body=b)
    except Unsupported as e:
        r.error("cannot interpret finalize: %s" % e)
    return r


# --------------------------------------------------------------------------- Subscription / Using (C05)

def sub_rules(P, E):
    r = RuleResult("SUB", "Subscription::unsubscribe is call-and-clear (idempotent); is_subscribed reports the ISSUB "
                          "closure or false; inner_subscribe's subscription closes over the observer it handed to the "
                          "source; Using::drop unsubscribes")
    ub = P.body(SUBSCRIPTION + "::unsubscribe")
    ib = P.body(SUBSCRIPTION + "::is_subscribed")
    isb = P.body(OBSERVABLE + "::inner_subscribe")
    if ub is None or ib is None or isb is None:
        r.error("anchor missing: Subscription::unsubscribe / is_subscribed / Observable::inner_subscribe")
        return r
    calls = [c for c in ub.calls if atom(c) == "fw_call"]
    r.instance((ub.nid, "invocation"), True, "%s" % [c.name for c in calls])
    if len(calls) != 1 or calls[0].name != "call_and_clear_if_available" or \
            not any(path[:1] == ("fn_unsubscribe",) for (_, _, path) in ub.operand_prov(calls[0].args[0])):
        r.violate((ub.nid, "not call-and-clear"),
                  "Subscription::unsubscribe must invoke fn_unsubscribe exactly once through call_and_clear_if_available "
                  "(found %s): a second unsubscribe would run the teardown again" % [c.name for c in calls], body=ub)
    elif Effects.path_avoiding(ub, ub.returns, [calls[0].bb]) is not None:
        r.violate((ub.nid, "unsubscribe skipped on some path"), "a path through Subscription::unsubscribe does nothing", body=ub)
    ic = [c for c in ib.calls if atom(c) == "fw_call"]
    r.instance((ib.nid, "query"), True, "%s" % [c.name for c in ic])
    if len(ic) != 1 or not any(path[:1] == ("fn_is_subscribed",) for (_, _, path) in ib.operand_prov(ic[0].args[0])):
        r.violate((ib.nid, "does not consult fn_is_subscribed"), "Subscription::is_subscribed must report the ISSUB closure", body=ib)
    for c in ib.calls:
        if atom(c) == "fw_clear" or (atom(c) == "fw_call" and c.name == "call_and_clear_if_available"):
            r.violate((ib.nid, "is_subscribed mutates"), "Subscription::is_subscribed clears a slot", body=ib)
    # inner_subscribe: the observer passed to the source, the UNSUB and the ISSUB closures alias the same parameter
    src_calls = [c for c in isb.calls if atom(c) == "fw_call" and any(path[:1] == ("source",) for (_, _, path) in isb.operand_prov(c.args[0]))]
    news = [c for c in isb.calls if atom(c) == "subscription_new"]
    r.instance((isb.nid, "wiring"), True, "source calls %s Subscription::new %s" % ([c.bb for c in src_calls], [c.bb for c in news]))
    if len(src_calls) != 1 or len(news) != 1:
        r.violate((isb.nid, "unexpected shape"), "inner_subscribe must call the source once and build one Subscription", body=isb)
    else:
        handed = isb.operand_prov(src_calls[0].args[1])
        if not all(t[0] == "param" and t[1] == 2 for t in handed):
            r.violate((isb.nid, "source gets another observer"), "the source is run with something else than the caller's observer", body=isb)
        for i, (want, name) in enumerate((("obs_unsubscribe", "UNSUB"), ("is_subscribed", "ISSUB"))):
            cl = news[0].arg_closure(i)
            cb = P.bodies.get(cl) if cl else None
            if cb is None:
                r.error("SUB: Subscription::new argument %d is not a closure" % i)
                continue
            ks = [c for c in cb.calls if atom(c) == want]
            ok = len(ks) == 1 and Effects.path_avoiding(cb, cb.returns, [ks[0].bb]) is None
            if ok:
                og = set()
                for t in cb.operand_prov(ks[0].args[0]):
                    og |= P.global_cell(cb, t, through_helpers=True)
                ok = bool(og) and all(g[0] == isb.id and g[1] == "param" and g[2] == 2 for g in og)
            r.instance((cb.nid, name), True, None)
            if not ok:
                r.violate((isb.nid, "%s closure does not act on the subscribed observer" % name),
                          "the Subscription returned by subscribe does not %s the observer that was handed to the source"
                          % ("unsubscribe" if i == 0 else "query"), body=cb)
    # Using::drop
    db = None
    for b in P.bodies.values():
        if b.impl_trait == "std::ops::Drop" and norm(ty_adt(b.impl_self or {}) or "") == "utils::using::Using":
            db = b
    if db is None:
        r.error("anchor missing: impl Drop for Using")
    else:
        us = [c.bb for c in db.calls if atom(c) == "sub_unsubscribe"]
        r.instance((db.nid, "drop"), True, "unsubscribe blocks %s" % us)
        if not us or Effects.path_avoiding(db, db.returns, us) is not None:
            r.violate((db.nid, "drop does not unsubscribe"), "dropping a Using guard does not unsubscribe on every path", body=db)
    return r


def s_fresh_serial(P, E):
    """new_observer keys each upstream with a value drawn from a dedicated counter, incremented and
    read under one write guard; the inserted key is that value (so keys of live upstreams never
    collide and sink_complete's `last one out` test counts every live upstream)."""
    r = RuleResult("S-fresh-serial", "new_observer draws a fresh serial under one write guard of a dedicated counter and "
                                     "registers the upstream under exactly that key")
    b = _sctl(P, "new_observer")
    if b is None:
        r.error("anchor missing: StreamController::new_observer")
        return r
    acqs, held, _ = b.guards()
    sa = {bb: a for bb, a in acqs.items() if any(rk == "param" and rd == 1 and path[:1] == ("serial",) for (rk, rd, path) in a["cell"])}
    ins = [c for c in b.calls if c.path == "std::collections::HashMap::insert"
           and any(path[:1] == ("unscribers",) for (_, _, path) in b.operand_prov(c.args[0]))]
    r.instance((b.nid, "serial"), True, "serial acquisitions %s inserts %s" % ({k: v["mode"] for k, v in sa.items()}, [c.bb for c in ins]))
    if len(sa) != 1 or list(sa.values())[0]["mode"] not in ("W", "M"):
        r.violate((b.nid, "serial not drawn under one write guard"),
                  "the upstream key is not produced by one write-locked read-and-increment of the serial counter (%d "
                  "acquisitions): keys of live upstreams can collide, an entry is overwritten and `last one out` fires early"
                  % len(sa), body=b)
    if not ins:
        r.error("S-fresh-serial: insert into unscribers not found")
    for c in ins:
        key_from_serial = all(rk == "param" and rd == 1 and path[:1] == ("serial",) for (rk, rd, path) in b.operand_prov(c.args[1]))
        r.instance((b.nid, "key"), True, "key provenance %s" % sorted(b.term_name(t) for t in b.operand_prov(c.args[1])))
        if not key_from_serial:
            r.violate((b.nid, "key not the fresh serial"), "the key under which the upstream is registered does not derive "
                      "from the serial counter", body=b, line=c.line)
    # the serial is incremented (a store through the guard) under that guard
    stores = 0
    for i in sorted(b.reach):
        for s_ in b.blocks[i]["stmts"]:
            if s_["k"] == "assign" and len(s_["lhs"]) > 1 and "*" in s_["lhs"] and \
                    any(rk == "param" and rd == 1 and path[:1] == ("serial",) for (rk, rd, path) in b.place_prov(s_["lhs"])):
                stores += 1
    for i in sorted(b.reach):
        for s_ in b.blocks[i]["stmts"]:
            if s_["k"] == "assign" and len(s_["lhs"]) > 1 and "*" in s_["lhs"] and \
                    any(rk == "param" and rd == 1 and path[:1] == ("serial",) for (rk, rd, path) in b.place_prov(s_["lhs"])):
                rv = s_["rv"]
                leaves = set()
                for o in [rv[k] for k in ("a", "b", "op") if isinstance(rv.get(k), dict)]:
                    leaves |= b.value_sources(b.operand_prov(o))
                foreign = [t for t in leaves if t[0] != "const" and not (t[0] == "param" and t[1] == 1 and t[2][:1] == ("serial",))]
                if not foreign and not b.advances(rv):
                    r.violate((b.nid, "serial does not move"),
                              "the value stored back into the serial counter is not the old one plus a non-zero constant (steps found: %s): "
                              "consecutive upstreams get the same key, the later one overwrites the earlier one's entry and `last one out` "
                              "fires early" % b.arith_steps(rv), body=b, line=s_.get("line"))
                if foreign:
                    r.violate((b.nid, "serial not advanced from itself"),
                              "the new value of the serial counter derives from %s, not only from the counter: a key can "
                              "repeat while its earlier holder is still registered" % sorted(b.term_name(t) for t in foreign),
                              body=b, line=s_.get("line"))
    if not stores:
        r.violate((b.nid, "serial never advanced"), "the serial counter is never incremented: every upstream gets the same key", body=b)
    return r


def sub_live_gate(P, E):
    """Observable::inner_subscribe runs the source only for an observer that is still subscribed
    (so an operator never subscribes a further input on behalf of a subscription that has ended)."""
    r = RuleResult("SUB-live-gate", "inner_subscribe runs the source only on the true edge of observer.is_subscribed()")
    b = P.body(OBSERVABLE + "::inner_subscribe")
    if b is None:
        r.error("anchor missing: Observable::inner_subscribe")
        return r
    src_calls = [c for c in b.calls if atom(c) == "fw_call" and any(path[:1] == ("source",) for (_, _, path) in b.operand_prov(c.args[0]))]
    gates = [c for c in b.calls if atom(c) == "is_subscribed" and all(rk == "param" and rd == 2 for (rk, rd, _) in b.operand_prov(c.args[0]))]
    br = _branches_on_calls(b, gates)
    dom = b.dominators()
    r.instance((b.nid, "source call"), True, "source calls %s, gates %s" % ([c.bb for c in src_calls], [g["switch"] for g in br]))
    if not src_calls:
        r.error("SUB-live-gate: source call not found")
    for c in src_calls:
        ok = any(g["true"] in dom[c.bb] and b.pred[g["true"]] == [g["switch"]] and g["true"] != g["false"] for g in br)
        if not ok:
            r.violate((b.nid, "source run for a dead observer"),
                      "inner_subscribe runs the source without checking that the observer is still subscribed: a combinator "
                      "whose earlier input already ended the subscription (error(..).merge(&[late])) subscribes the later "
                      "inputs anyway and nothing ever tears them down", body=b, line=c.line)
    return r


# --------------------------------------------------------------------------- StreamController wiring shapes

def s_wiring(P, E):
    """The three wiring facts every teardown argument rests on:
    (new) StreamController::new installs `finalize` of the new controller as the subscriber's
          teardown (so unsubscribing downstream tears down upstream);
    (register) new_observer stores, under the key it returns handlers for, an action that
          unsubscribes exactly the observer it returns;
    (abort) upstream_abort_observe removes the entry and runs it."""
    r = RuleResult("S-wiring", "StreamController::new wires finalize as the subscriber's teardown; new_observer registers an "
                               "action unsubscribing the returned observer; upstream_abort_observe removes and runs the entry")
    nb, ob, ab = _sctl(P, "new"), _sctl(P, "new_observer"), _sctl(P, "upstream_abort_observe")
    for nm, b in (("new", nb), ("new_observer", ob), ("upstream_abort_observe", ab)):
        if b is None:
            r.error("anchor missing: StreamController::%s" % nm)
    if r.errors:
        return r
    # (new)
    sets = [c for c in nb.calls if atom(c) == "set_on_unsubscribe"]
    ok = False
    for c in sets:
        recv_ok = all(rk == "param" and rd == 1 for (rk, rd, _) in nb.operand_prov(c.args[0]))
        cl = c.arg_closure(1)
        cb = P.bodies.get(cl) if cl else None
        fin = cb is not None and any(atom(x) == "finalize" for x in cb.calls) and \
            Effects.path_avoiding(cb, cb.returns, [x.bb for x in cb.calls if atom(x) == "finalize"]) is None
        if recv_ok and fin and Effects.path_avoiding(nb, nb.returns, [c.bb]) is None:
            ok = True
    r.instance((nb.nid, "teardown wiring"), True, "set_on_unsubscribe sites %s" % [c.bb for c in sets])
    if not ok:
        r.violate((nb.nid, "finalize not installed as the subscriber's teardown"),
                  "StreamController::new does not (on every path) install a teardown on its subscriber that runs finalize(): "
                  "unsubscribing downstream no longer tears down upstream", body=nb)
    # (register)
    ins = [c for c in ob.calls if c.path == "std::collections::HashMap::insert"
           and any(path[:1] == ("unscribers",) for (_, _, path) in ob.operand_prov(c.args[0]))]
    news = [c for c in ob.calls if atom(c) == "observer_new"]
    r.instance((ob.nid, "registration"), True, "inserts %s Observer::new %s" % ([c.bb for c in ins], [c.bb for c in news]))
    if len(news) != 1 or not ins:
        r.violate((ob.nid, "upstream not registered"), "new_observer does not register the observer it creates", body=ob)
    else:
        obs_root = ("ret", news[0].bb)
        good = False
        for c in ins:
            for t in ob.operand_prov(c.args[2]):
                if t[0] == "ret":
                    k = ob.call_at(t[1])
                    if k is not None and atom(k) == "fw_new":
                        cl = k.arg_closure(0)
                        cb = P.bodies.get(cl) if cl else None
                        if cb is not None:
                            us = [x for x in cb.calls if atom(x) == "obs_unsubscribe"]
                            for x in us:
                                og = set()
                                for tt in cb.operand_prov(x.args[0]):
                                    og |= P.global_cell(cb, tt)
                                if og and all(g[0] == ob.id and (g[1], g[2]) == obs_root for g in og) and \
                                        Effects.path_avoiding(cb, cb.returns, [x.bb]) is None:
                                    good = True
            if Effects.path_avoiding(ob, ob.returns, [c.bb]) is not None:
                good = False
        # the returned value is that observer
        ret_ok = all(t[0] == "ret" and t[1] == news[0].bb for t in ob.local_prov(0))
        if not good or not ret_ok:
            r.violate((ob.nid, "entry does not unsubscribe the returned observer"),
                      "the action registered by new_observer does not unsubscribe exactly the observer it hands out (or is not "
                      "registered on every path): finalize() cannot stop that upstream", body=ob)
    # (relay) the observer handed to the source only relays: each of its three callbacks calls the operator's handler and does
    # nothing else with the controller (no teardown, no map access, no delivery of its own) - what happens on an upstream event
    # is the handler's decision alone (observe_on's handler merely *posts* the event: a teardown here would overtake it)
    if len(news) == 1:
        for i, role in ((0, "next"), (1, "error"), (2, "complete")):
            cl = news[0].arg_closure(i)
            cb = P.bodies.get(cl) if cl else None
            if cb is None:
                r.error("S-wiring: %s callback of the registered observer is not a closure" % role)
                continue
            extra = []
            acqs = cb.guards()[0]
            for c in cb.calls:
                a = atom(c)
                if a is not None and a not in ("fw_call",):
                    extra.append(a)
                elif c.path.startswith("std::collections::"):
                    extra.append(c.path.split("::")[-1])
            extra += ["lock"] * len(acqs)
            hcalls = [c for c in cb.calls if c.indirect or c.path.startswith("std::ops::Fn") or atom(c) == "fw_call"]
            r.instance((ob.nid, "relay", role), True, "handler calls %s, other effects %s" % ([c.bb for c in hcalls], extra))
            if extra:
                r.violate((ob.nid, "registered observer does more than relay", role),
                          "the %s callback of the observer new_observer hands to the source also does [%s] itself: teardown / delivery "
                          "decisions belong to the operator's handler (a handler that defers its event - observe_on - is overtaken)"
                          % (role, ", ".join(sorted(set(extra)))), body=cb)
            if not hcalls or Effects.path_avoiding(cb, cb.returns, [c.bb for c in hcalls]) is not None:
                r.violate((ob.nid, "registered observer does not call the handler", role),
                          "the %s callback of the observer new_observer hands out does not call the operator's handler on every path" % role, body=cb)
    # (abort)
    rem = [c for c in ab.calls if c.path == "std::collections::HashMap::remove"
           and any(path[:1] == ("unscribers",) for (_, _, path) in ab.operand_prov(c.args[0]))]
    runs = [c for c in ab.calls if atom(c) == "fw_call"]
    r.instance((ab.nid, "abort"), True, "remove %s run %s" % ([c.bb for c in rem], [c.bb for c in runs]))
    if not rem:
        r.violate((ab.nid, "entry not removed"), "upstream_abort_observe does not remove the entry: it would be run again by finalize "
                  "and keeps counting as a live input", body=ab)
    elif not all(rk == "param" and rd == 2 for (rk, rd, _) in ab.operand_prov(rem[0].args[1])):
        r.violate((ab.nid, "removes another key"), "upstream_abort_observe removes a key that is not its argument", body=ab)
    if not runs:
        r.violate((ab.nid, "entry not run"), "upstream_abort_observe does not run the removed entry: the upstream is not unsubscribed", body=ab)
    else:
        from absint import SlotInterp  # presence of the removed entry decides whether it is run
        # structural: the run call's receiver derives from the removed value, and is reached on the Some edge only
        for c in runs:
            from_removed = any("unscribers" in g[3] and "[]" in g[3] for t in ab.operand_prov(c.args[0]) for g in P.global_cell(ab, t, through_helpers="add"))
            if not from_removed:
                r.violate((ab.nid, "runs something else"), "upstream_abort_observe runs an action that is not the removed entry", body=ab, line=c.line)
    return r


def d_compose(P, E):
    """Derived operators are compositions with fixed parameters (checked only where the composition
    is actually used): first = take(1), last = take_last(1), all = filter(!p).take(1),
    AsyncSubject = subject.take_last(1)."""
    r = RuleResult("D-compose", "derived operators compose the primitive with the defining constant")
    table = [
        ("operators::first::First::new", "operators::take::Take::new", 0, 1),
        ("operators::last::Last::new", "operators::take_last::TakeLast::new", 0, 1),
        ("subjects::async_subject::AsyncSubject::observable", "operators::take_last::<impl observable::Observable>::take_last", 1, 1),
    ]
    for (host, callee, argi, want) in table:
        hb = P.body(host)
        if hb is None:
            continue
        bodies = [hb] + P.descendants(hb)
        for b in bodies:
            for c in b.calls:
                if c.path == callee or (callee.endswith("::take_last") and c.name == "take_last" and c.local) \
                        or (callee.endswith("Take::new") and c.path.endswith("Take::new")) \
                        or (callee.endswith("TakeLast::new") and c.path.endswith("TakeLast::new")):
                    a = c.args[argi]
                    val = a.get("int") if a["k"] == "const" else None
                    r.instance((host, c.path), True, "argument %s" % (val if val is not None else "non-constant"))
                    if val != want:
                        r.violate((host, "composed with %s instead of %d" % (val, want)),
                                  "%s builds %s(%s); its definition is %s(%d)" % (host, c.path.split("::")[-2] + "::" + c.path.split("::")[-1], val, c.path.split("::")[-1], want),
                                  body=b, line=c.line)
    # all = filter(!p).take(1): inside All::execute the chain ends in take(const 1)
    ab = P.body("operators::all::All::execute")
    if ab is not None:
        for b in [ab] + P.descendants(ab):
            for c in b.calls:
                if c.local and c.name == "take" and len(c.args) > 1:
                    a = c.args[1]
                    val = a.get("int") if a["k"] == "const" else None
                    r.instance(("operators::all::All::execute", "take"), True, "argument %s" % val)
                    if val != 1:
                        r.violate(("operators::all::All::execute", "take(%s) instead of take(1)" % val), "all() must stop at the first counter-example", body=b, line=c.line)
    return r


# --------------------------------------------------------------------------- HOOK-STORE: the hook setters keep what they are given
HOOK_SETTERS = [
    # (setter, canonical field, what hangs on it)
    ("internals::stream_controller::StreamController::set_on_finalize", "on_finalize",
     "finalize() then has nothing to run: a scheduler created for the subscription is never aborted (its worker thread stays)"),
    ("observer::Observer::set_on_unsubscribe", "fn_on_unsubscribe",
     "unsubscribing the observer no longer reaches the StreamController's finalize / the Subject's de-registration: upstream is never torn down"),
    ("subjects::subject::Subject::set_on_subscribe", "on_subscribe",
     "ref_count()/replay() never hear of their first subscriber and never connect"),
    ("subjects::subject::Subject::set_on_unsubscribe", "on_unsubscribe",
     "ref_count()/replay() never hear that their last subscriber left and never disconnect"),
]


def hook_store(P, E, prefixes=None):
    """Each hook setter stores, on every path, Some(wrapper of the callback it was given) into its hook cell."""
    r = RuleResult("HOOK-STORE", "set_on_finalize / set_on_unsubscribe / Subject::set_on_(un)subscribe store the callback they are given")
    n = 0
    for (nid, field, why) in HOOK_SETTERS:
        if prefixes and not nid.startswith(prefixes):
            continue
        bs = [b for b in P.bodies.values() if b.nid == nid]
        if len(bs) != 1:
            r.error("HOOK-STORE: anchor missing: %s" % nid)
            continue
        b = bs[0]
        n += 1

        def hits(prov):
            for t in prov:
                for g in P.global_cell(b, t, through_helpers="add"):
                    if field in g[3]:
                        return True
            return False

        def from_callback(op, depth=0):
            """the stored value wraps the setter's callback parameter"""
            if depth > 6 or not isinstance(op, dict) or op.get("k") not in ("copy", "move"):
                return False
            for t in b.operand_prov(op):
                if t[0] == "param" and t[1] == 2:
                    return True
                if t[0] == "agg":
                    rv = b.blocks[t[1][0]]["stmts"][t[1][1]]["rv"]
                    if any(from_callback(o, depth + 1) for o in rv.get("ops", [])):
                        return True
                    if rv.get("ak") == "closure":
                        continue
                if t[0] == "ret":
                    k = b.call_at(t[1])
                    if k is not None and any(from_callback(a, depth + 1) for a in k.args):
                        return True
            return False
        stores = []       # (bb, is Some(callback))
        for i in sorted(b.reach):
            for s_ in b.blocks[i]["stmts"]:
                if s_["k"] == "assign" and len(s_["lhs"]) > 1 and "*" in s_["lhs"] and hits(b.place_prov(s_["lhs"])):
                    rv = s_["rv"]
                    some = False
                    cands = [rv] if rv["k"] == "agg" else []
                    if rv["k"] == "use" and rv["op"]["k"] in ("copy", "move"):
                        for t in b.operand_prov(rv["op"]):
                            if t[0] == "agg":
                                cands.append(b.blocks[t[1][0]]["stmts"][t[1][1]]["rv"])
                    for a in cands:
                        if a.get("variant") == "Some" and any(from_callback(o) for o in a.get("ops", [])):
                            some = True
                    stores.append((i, some))
        for c in b.calls:
            if c.path in ("std::option::Option::replace", "std::option::Option::insert", "std::option::Option::get_or_insert") and len(c.args) > 1 \
                    and hits(b.operand_prov(c.args[0])):
                stores.append((c.bb, from_callback(c.args[1])))
        good = [bb for (bb, ok) in stores if ok]
        # a closure wrapped around the callback passes every notification on: it calls the captured callback on every path
        for k in b.calls:
            if atom(k) == "fw_new" and k.args:
                cl = k.arg_closure(0)
                wb = P.bodies.get(cl) if cl else None
                if wb is not None:
                    inv = [c.bb for c in wb.calls if c.indirect or (c.trait or "").startswith("std::ops::Fn")]
                    if not inv or Effects.path_avoiding(wb, wb.returns, inv) is not None:
                        r.violate((nid, "stored wrapper does not always call the callback"),
                                  "%s stores a closure that does not call the callback it was given on every path: notifications are "
                                  "filtered before they reach it (%s)" % (nid.split("::")[-1], why), body=wb)
        r.instance((nid, "stores its callback"), True, "stores into %s at %s" % (field, stores))
        if not good or Effects.path_avoiding(b, b.returns, good) is not None:
            r.violate((nid, "callback not stored"),
                      "%s does not store Some(<its callback>) into `%s` on every path: %s" % (nid.split("::")[-1], field, why), body=b)
    if n == 0:
        r.error("HOOK-STORE: no setter in scope")
    return r


# --------------------------------------------------------------------------- O-slot-purity
def o_slot_purity(P, E):
    """Observer::new gives each user callback to exactly one slot: what the next-slot's closure owns derives from the `next`
    parameter only, the error-slot's from `error`, the complete-slot's from `complete`.  A slot closure that also owns another
    callback can invoke it behind the observer's arbitration (the error handler called from the next slot: the subscriber sees
    an error and then more items - the typestate rules only see calls made through the slots)."""
    r = RuleResult("O-slot-purity", "each user callback of Observer::new is owned by its own slot's closure only")
    nb = P.body(OBSERVER + "::new")
    if nb is None:
        r.error("anchor missing: Observer::new")
        return r
    ren = P.facts.get("_field_renames_q") or {}
    a = P.adts.get(OBSERVER)
    canon = [ren.get((OBSERVER, f["name"]), f["name"]) for f in a["variants"][0]["fields"]] if a else []

    def params_of(b, op, depth=0, seen=None):
        seen = seen if seen is not None else set()
        out = set()
        if depth > 8 or not isinstance(op, dict) or op.get("k") not in ("copy", "move"):
            return out
        for t in b.operand_prov(op):
            if (b.id, t) in seen:
                continue
            seen.add((b.id, t))
            if t[0] == "param":
                out.add(t[1])
            elif t[0] == "agg":
                rv = b.blocks[t[1][0]]["stmts"][t[1][1]]["rv"]
                for o in rv.get("ops", []):
                    out |= params_of(b, o, depth + 1, seen)
            elif t[0] == "ret":
                k = b.call_at(t[1])
                if k is not None:
                    for o in k.args:
                        out |= params_of(b, o, depth + 1, seen)
        return out
    built = 0
    for i in sorted(nb.reach):
        for st in nb.blocks[i]["stmts"]:
            if st["k"] == "assign" and st["rv"]["k"] == "agg" and st["rv"].get("ak") == "adt" and norm(st["rv"].get("def") or "") == OBSERVER:
                built += 1
                want = {"fn_next": 1, "fn_error": 2, "fn_complete": 3}
                for fld, pi in want.items():
                    if fld not in canon:
                        r.error("O-slot-purity: field %s not identified" % fld)
                        continue
                    got = params_of(nb, st["rv"]["ops"][canon.index(fld)])
                    r.instance((nb.nid, fld), True, "owns constructor parameter(s) %s" % sorted(got))
                    if got - {pi}:
                        names = {1: "next", 2: "error", 3: "complete"}
                        r.violate((nb.nid, fld, "slot owns another callback"),
                                  "the `%s` slot of a new Observer also owns the user's %s callback: it can be invoked from that slot, "
                                  "outside the arbitration the `%s` slot is subject to" % (fld, "/".join(names.get(x, "?") for x in sorted(got - {pi})),
                                                                                          "/".join("fn_" + names.get(x, "?") for x in sorted(got - {pi}))), body=nb)
                    if pi not in got:
                        r.violate((nb.nid, fld, "slot does not own its callback"), "the `%s` slot of a new Observer is not built from the matching callback" % fld, body=nb)
    if not built:
        r.error("O-slot-purity: Observer::new builds no Observer value")
    return r


def f_clear_total(P, E):
    """FunctionWrapper::clear empties the slot - on every path, whatever the slot holds or whoever else holds a copy of the callable.
    (Every `nothing after a terminal / after unsubscribe` argument starts from: after clear() returned, exists() is false and nothing
    can be fetched.)"""
    r = RuleResult("F-clear-total", "FunctionWrapper::clear stores None into the slot on every path")
    b = P.body(FW + "::clear")
    if b is None:
        r.error("anchor missing: FunctionWrapper::clear")
        return r
    stores = []
    for i in sorted(b.reach):
        for st in b.blocks[i]["stmts"]:
            if st["k"] == "assign" and len(st["lhs"]) > 1 and "*" in st["lhs"] and \
                    any(rk == "param" and rd == 1 and path[:1] == ("inner",) for (rk, rd, path) in b.place_prov(st["lhs"])):
                rv = st["rv"]
                none = rv["k"] == "agg" and rv.get("variant") == "None"
                if rv["k"] == "use" and rv["op"]["k"] in ("copy", "move"):
                    for t in b.operand_prov(rv["op"]):
                        if t[0] == "agg" and b.blocks[t[1][0]]["stmts"][t[1][1]]["rv"].get("variant") == "None":
                            none = True
                if rv["k"] == "use" and rv["op"]["k"] == "const" and (P.const_init(rv["op"]) or (None, None, None))[2] == "None":
                    none = True
                if none:
                    stores.append(i)
    for c in b.calls:
        if c.path in ("std::option::Option::take", "std::mem::take") and c.args and \
                any(rk == "param" and rd == 1 and path[:1] == ("inner",) for (rk, rd, path) in b.operand_prov(c.args[0])):
            stores.append(c.bb)
    r.instance((b.nid, "empties the slot"), True, "None stored at %s" % sorted(set(stores)))
    if not stores or Effects.path_avoiding(b, b.returns, stores) is not None:
        r.violate((b.nid, "slot not emptied on every path"),
                  "FunctionWrapper::clear can return without having stored None into the slot: the callback stays callable (and exists() "
                  "true) after a terminal / an unsubscribe cleared it", body=b)
    return r


def f_direct_call(P, E):
    """Between fetching the callable out of the slot and calling it, FunctionWrapper runs no code of the user's: the argument is MOVED into
    the call.  (A `clone()` of the generic argument there is user code - `Item::clone` - running after Observer::next's is_subscribed()
    test and the fetch: a terminal delivered meanwhile is followed by this item.)"""
    r = RuleResult("F-direct-call", "FunctionWrapper::call* hand their argument to the callable without running generic (user) code in between")
    n = 0
    for name in ("call", "call_if_available", "call_and_clear_if_available"):
        b = P.body(FW + "::" + name)
        if b is None:
            r.error("anchor missing: FunctionWrapper::%s" % name)
            continue
        n += 1
        bad = []
        for c in b.calls:
            if c.path in ("std::clone::Clone::clone", "std::borrow::ToOwned::to_owned", "std::convert::Into::into", "std::convert::From::from",
                          "std::default::Default::default", "std::cmp::PartialEq::eq", "std::ops::Drop::drop") and c.args:
                l = c.args[0]["p"][0] if c.args[0].get("k") in ("copy", "move") else None
                ty = b.locals[l]["ty"] if l is not None else {}
                inner = ty
                while inner.get("k") in ("ref", "ptr") and inner.get("inner"):
                    inner = inner["inner"]
                if inner.get("k") == "param":
                    bad.append((c, inner.get("s")))
        r.instance((b.nid, "argument handed on"), True, "generic calls on the argument: %d" % len(bad))
        for (c, tyname) in bad:
            r.violate((b.nid, "user code between fetch and call"),
                      "FunctionWrapper::%s calls %s on a value of the type parameter `%s` (user code) before it invokes the callable: an event "
                      "that the observer's gate let through is delivered after whatever happened during that call" % (name, c.path.split("::")[-1], tyname),
                      body=b, line=c.line)
            break
    return r


def o_slot_calls(P, E):
    """Inside impl Observer a slot is only ever invoked through the call-if-present forms: between `is_subscribed()` and the invocation
    another thread may empty the slot, and the panicking FunctionWrapper::call would unwind through the emitting source (a Subject's
    broadcast loop stops in the middle of its snapshot)."""
    r = RuleResult("O-slot-calls", "Observer invokes its slots only with call_if_available / call_and_clear_if_available")
    n = 0
    for m in [x for x in P.bodies.values() if x.kind == "assoc" and x.impl_self and norm(ty_adt(x.impl_self) or "") == OBSERVER
              and not x.impl_trait and x.id not in P.absorbed]:
        for c in m.calls:
            if atom(c) == "fw_call" and c.args and any(rk == "param" and rd == 1 and path[:1] in (("fn_next",), ("fn_error",), ("fn_complete",))
                                                       for (rk, rd, path) in m.operand_prov(c.args[0])):
                n += 1
                r.instance((m.nid, c.path.split("::")[-1]), True, None)
                if c.path.split("::")[-1] == "call":
                    r.violate((m.nid, "panicking call on a slot"),
                              "Observer::%s invokes a slot with FunctionWrapper::call, which panics on an empty slot: the slot can be emptied by "
                              "another thread after the is_subscribed() test" % m.name, body=m, line=c.line)
    if n < 1:
        r.error("O-slot-calls: no slot invocation found in impl Observer")
    return r


def sub_handoff_only(P, E):
    """Observable::inner_subscribe itself never signals or unsubscribes the observer it was given: it hands it to the source and captures
    it in the two closures of the Subscription it returns.  (An `unsubscribe()` of its own after the source returned races with a source
    thread that is delivering the terminal: the callback slot is emptied under it and the terminal is lost.)"""
    r = RuleResult("SUB-handoff-only", "inner_subscribe does not call next/error/complete/unsubscribe on the observer itself")
    b = P.body(OBSERVABLE + "::inner_subscribe")
    if b is None:
        r.error("anchor missing: Observable::inner_subscribe")
        return r
    bad = [c for c in b.calls if atom(c) in ("obs_next", "obs_error", "obs_complete", "obs_unsubscribe")]
    r.instance((b.nid, "observer calls"), True, "direct observer calls in inner_subscribe: %s" % [atom(c) for c in bad])
    for c in bad:
        r.violate((b.nid, "inner_subscribe signals the observer itself", atom(c)),
                  "Observable::inner_subscribe calls %s on the observer it was given (outside the Subscription's closures): only the source "
                  "and the caller's Subscription may do that" % atom(c), body=b, line=c.line)
    return r
