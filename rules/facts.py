"""Build the facts file for a crate by running cargo check through the rxlint driver.

Every call uses a fresh CARGO_TARGET_DIR (cargo's freshness cache would otherwise skip
the wrapper) under a scratch directory outside /repo and /verif, removed afterwards.
Fails closed (FactsError) if the facts file is missing or names another crate.
"""
import json, os, shutil, subprocess, tempfile, time

VERIF = os.path.dirname(os.path.dirname(os.path.abspath(__file__)))
DRIVER = os.path.join(VERIF, "rxlint", "target", "release", "rxlint")
SCRATCH_PARENT = os.environ.get("RXLINT_SCRATCH", "/var/tmp")


class FactsError(Exception):
    pass


def _sysroot():
    return subprocess.check_output(["rustc", "+nightly", "--print", "sysroot"], text=True).strip()


def build_facts(crate_dir="/repo", crate_name="another_rxrust", extra_rustflags="", keep=None):
    if not os.path.exists(DRIVER):
        raise FactsError("driver not built: %s (run MANIFEST.setup_cmd)" % DRIVER)
    t0 = time.time()
    scratch = tempfile.mkdtemp(prefix="rxlint-", dir=SCRATCH_PARENT)
    try:
        out = os.path.join(scratch, "facts.json")
        env = dict(os.environ)
        env["LD_LIBRARY_PATH"] = _sysroot() + "/lib:" + env.get("LD_LIBRARY_PATH", "")
        env["RUSTFLAGS"] = ("-Zmir-opt-level=0 -Awarnings " + extra_rustflags).strip()
        env["RUSTC_WORKSPACE_WRAPPER"] = DRIVER
        env["RXLINT_OUT"] = out
        env["RXLINT_CRATE"] = crate_name
        env["CARGO_TARGET_DIR"] = os.path.join(scratch, "target")
        env["CARGO_NET_OFFLINE"] = "true"
        env.pop("RUSTC_WRAPPER", None)
        cmd = ["cargo", "+nightly", "check", "--offline", "--lib", "--quiet",
               "--manifest-path", os.path.join(crate_dir, "Cargo.toml")]
        p = subprocess.run(cmd, env=env, stdout=subprocess.PIPE, stderr=subprocess.STDOUT, text=True)
        if p.returncode != 0:
            raise FactsError("cargo check failed for %s:\n%s" % (crate_dir, p.stdout[-4000:]))
        if not os.path.exists(out) or os.path.getsize(out) == 0:
            raise FactsError("driver produced no facts for %s (crate %s)" % (crate_dir, crate_name))
        with open(out) as f:
            facts = json.load(f)
        if facts.get("crate") != crate_name:
            raise FactsError("facts name crate %r, expected %r" % (facts.get("crate"), crate_name))
        if keep:
            shutil.copy(out, keep)
        facts["_build_s"] = time.time() - t0
        return facts
    finally:
        shutil.rmtree(scratch, ignore_errors=True)


if __name__ == "__main__":
    import sys
    f = build_facts(keep=sys.argv[1] if len(sys.argv) > 1 else None)
    print("crate", f["crate"], "bodies", len(f["bodies"]), "adts", len(f["adts"]), "build_s %.1f" % f["_build_s"])
