"""COUNT: the counting clause of C02 decided on an abstraction extracted from MIR.

For every counting operator (take, skip, take_last, skip_last, buffer_with_count,
window_with_count) the item handler is summarised, path by path, into a *guarded transition*:

    guard(state, bound)  ->  trace of effects ; state'

where state = the operator's per-subscription integer cell / container length, bound = the captured
`count`, guards are comparisons between (state + const), (bound + const) and constants, and the
trace is the ordered list of slot-API / container / subject effects on that path.  The summary is
computed by a path-sensitive symbolic evaluation of the handler's MIR (no execution): integers are
affine forms `symbol + k`, booleans are comparison terms, Options carry their discriminant.

The operator's ReactiveX definition is a table: for the k-th item and parameter `count`, which
effects must occur.  The summary is then explored as a transition system from the cell's initial
value (read off the allocation site) for every count in 0..COUNT_MAX and every k in 1..K_MAX, and
each step's trace is compared with the table.  Because state and bound are touched only by +/-
constants and comparisons, the outcome depends only on the finite set of orderings between them:
the box covers every ordering whose constants are below the box size (checked), and in particular
the whole parameter range the property quantifies over (counts 0..5, lengths 0..8).
Nothing about the *values* of items is decided here beyond which item (the handler's own payload,
the queue's front, a copy of the buffer) is handed on."""
import re
from core import RuleResult
from effects import *

INT_TYS = {"usize", "u8", "u16", "u32", "u64", "u128", "isize", "i8", "i16", "i32", "i64", "i128"}
COUNT_MAX = 9
K_MAX = 14

CONT_NEW = {"std::collections::VecDeque::new": "deque", "std::vec::Vec::new": "vec",
            "std::collections::VecDeque::with_capacity": "deque", "std::vec::Vec::with_capacity": "vec",
            "std::default::Default::default": "vec", "std::iter::FromIterator::from_iter": "seq", "std::iter::Iterator::collect": "seq",
            "std::collections::VecDeque::from_iter": "deque", "std::vec::Vec::from_iter": "vec"}
PUSH_BACK = {"std::collections::VecDeque::push_back", "std::vec::Vec::push"}
PUSH_FRONT = {"std::collections::VecDeque::push_front"}
POP_FRONT = {"std::collections::VecDeque::pop_front"}
POP_BACK = {"std::collections::VecDeque::pop_back", "std::vec::Vec::pop"}
LEN = {"std::collections::VecDeque::len", "std::vec::Vec::len"}
IS_EMPTY = {"std::collections::VecDeque::is_empty", "std::vec::Vec::is_empty"}
CLEAR = {"std::collections::VecDeque::clear", "std::vec::Vec::clear"}
DRAIN_ALL = {"std::mem::take", "std::mem::replace"}


class Undecided(Exception):
    pass


# ---- symbolic values ------------------------------------------------------------------------
def INT(sym, k=0):
    return ("int", sym, k)


TOP = ("top",)
TRUE = ("bconst", True)
FALSE = ("bconst", False)


def is_int(v):
    return isinstance(v, tuple) and v and v[0] == "int"


def is_bool(v):
    return isinstance(v, tuple) and v and v[0] in ("bconst", "cmp", "not", "and", "or", "bvar")


def b_not(e):
    if e[0] == "bconst":
        return ("bconst", not e[1])
    if e[0] == "not":
        return e[1]
    return ("not", e)


def ev_int(v, sigma):
    if v[1] is None:
        return v[2]
    return sigma[v[1]] + v[2]


def ev_bool(e, sigma):
    k = e[0]
    if k == "bconst":
        return e[1]
    if k == "not":
        return not ev_bool(e[1], sigma)
    if k == "and":
        return ev_bool(e[1], sigma) and ev_bool(e[2], sigma)
    if k == "or":
        return ev_bool(e[1], sigma) or ev_bool(e[2], sigma)
    if k == "bvar":
        return bool(sigma[e[1]])
    if k == "veq":
        return sigma[e[1]] == e[2]
    if k == "vin":
        return sigma[e[1]] in e[2]
    if k == "cmp":
        a, c = ev_int(e[2], sigma), ev_int(e[3], sigma)
        return {"Lt": a < c, "Le": a <= c, "Gt": a > c, "Ge": a >= c, "Eq": a == c, "Ne": a != c}[e[1]]
    raise Undecided("boolean %r" % (e,))


def consts_of(e, acc):
    if e[0] == "cmp":
        acc.add(abs(e[2][2]))
        acc.add(abs(e[3][2]))
    elif e[0] in ("not",):
        consts_of(e[1], acc)
    elif e[0] in ("and", "or"):
        consts_of(e[1], acc)
        consts_of(e[2], acc)


class Path:
    __slots__ = ("pc", "trace", "cells", "env", "visits", "note")

    def __init__(self):
        self.pc, self.trace, self.cells, self.env, self.visits, self.note = [], [], {}, {}, {}, []

    def fork(self):
        p = Path()
        p.pc, p.trace, p.cells, p.env = list(self.pc), list(self.trace), dict(self.cells), dict(self.env)
        p.visits, p.note = dict(self.visits), list(self.note)
        return p


class Summary:
    """guarded transitions of one handler body"""

    def __init__(self, P, E, hb, item_param=3, item_kind="item", sink_param=None, serial_param=None, sink_upvar=None):
        self.P, self.E, self.b = P, E, hb
        self.sink_param = sink_param
        self.sink_upvar = sink_upvar
        self.serial_param = serial_param
        self.item_param = item_param
        self.item_kind = item_kind
        self.cellinfo = {}       # gcell -> ("int", init) | ("cont", kind) | ("obj", what)
        self.bounds = {}         # gcell -> symbol
        self.paths = []
        self._run()

    # -- cells
    def _gcells(self, prov):
        out = set()
        for t in prov:
            if t[0] in ("const", "unk", "val", "discr"):
                return None
            gs = self.P.global_cell(self.b, t, through_helpers=True)
            if any(g[1] in ("const", "val", "unk", "discr") for g in gs):
                # a parameter of a (recursive) local fn whose callers pass computed values (retry's attempt number): keep the
                # parameter itself as the quantity
                gs = self.P.global_cell(self.b, t, through_helpers=False)
            for g in gs:
                # the Ok payload of a try_read/try_write/try_lock result is the guard, i.e. the cell itself
                if len(g[3]) >= 2 and g[3][0] == "@Ok" and g[3][1] == "0":
                    g = (g[0], g[1], g[2], tuple(g[3][2:]))
                out.add(g)
        return out

    def _alloc_kind(self, g):
        """what the allocation root g = (body, 'ret', bb, path) holds, by following constructor arguments"""
        if g in self.cellinfo:
            return self.cellinfo[g]
        res = None
        bid, rk, rd, path = g
        body = self.P.bodies[bid]
        if rk == "ret" and not path:
            seen = 0
            cur_body, cur_bb = body, rd
            while seen < 6:
                seen += 1
                c = cur_body.call_at(cur_bb)
                if c is None:
                    break
                p = c.path
                if p in CONT_NEW and not c.args:
                    res = ("cont", CONT_NEW[p])
                    break
                if p in CONT_NEW:
                    res = ("cont", CONT_NEW[p])
                    break
                name = p.split("::")[-1]
                if name == "new" and (p.startswith("std::sync::") or p.startswith("std::cell::")) and c.args:
                    a = c.args[0]
                    if a["k"] == "const":
                        ci = self.P.const_init(a)
                        if ci and ci[0] == "bool":
                            res = ("flag", ci[1])
                        elif ci and ci[0] == "int":
                            res = ("int", ci[1])
                        elif ci and ci[0] == "variant" and ci[1] == "std::option::Option":
                            targs = ((c.args[0].get("t") or {}).get("args") or [{}])
                            isint = bool(targs) and targs[0].get("k") == "prim" and targs[0].get("s") in INT_TYS
                            res = ("optcell", ci[2] == "Some", "int" if isint else "any")
                        elif a.get("s") in ("true", "false"):
                            res = ("flag", a["s"] == "true")
                        elif "int" in a:
                            res = ("int", a["int"])
                        else:
                            res = ("obj", a.get("s", "?"))
                        break
                    nxt = [t for t in cur_body.operand_prov(a)]
                    if len(nxt) == 1 and nxt[0][0] == "const" and a.get("k") in ("copy", "move") and len(a["p"]) == 1:
                        # a named constant bound to a local first (`let e = Self::NO_ERROR; RwLock::new(e)`)
                        ds_ = [d for d in cur_body.defs.get(a["p"][0], []) if d[0] == "assign" and len(d[1]["lhs"]) == 1]
                        hops_ = 0
                        while len(ds_) == 1 and ds_[0][1]["rv"]["k"] == "use" and ds_[0][1]["rv"]["op"]["k"] in ("copy", "move") \
                                and len(ds_[0][1]["rv"]["op"]["p"]) == 1 and hops_ < 4:
                            hops_ += 1
                            ds_ = [d for d in cur_body.defs.get(ds_[0][1]["rv"]["op"]["p"][0], []) if d[0] == "assign" and len(d[1]["lhs"]) == 1]
                        if len(ds_) == 1 and ds_[0][1]["rv"]["k"] == "use" and ds_[0][1]["rv"]["op"]["k"] == "const":
                            ci = self.P.const_init(ds_[0][1]["rv"]["op"])
                            if ci and ci[0] == "bool":
                                res = ("flag", ci[1])
                                break
                            if ci and ci[0] == "int":
                                res = ("int", ci[1])
                                break
                            if ci and ci[0] == "variant" and ci[1] == "std::option::Option":
                                lty = cur_body.locals[a["p"][0]]["ty"]
                                targs = (lty.get("args") or [{}])
                                isint = bool(targs) and targs[0].get("k") == "prim" and targs[0].get("s") in INT_TYS
                                res = ("optcell", ci[2] == "Some", "int" if isint else "any")
                                break
                    if len(nxt) == 1 and nxt[0][0] == "const" and isinstance(nxt[0][1], str):
                        # a constant that reached the constructor through a local (an inlined helper's parameter)
                        import re
                        cs = nxt[0][1]
                        m = re.match(r"^(-?\d+)(_[iu](8|16|32|64|128|size))?$", cs)
                        if cs in ("true", "false"):
                            res = ("flag", cs == "true")
                        elif m:
                            res = ("int", int(m.group(1)))
                        else:
                            res = ("obj", cs)
                        break
                    if len(nxt) == 1 and nxt[0][0] == "ret" and not nxt[0][2]:
                        cur_bb = nxt[0][1]
                        continue
                    if len(nxt) == 1 and nxt[0][0] in ("upvar", "param"):
                        # initialised from a captured plain value (a count-down from the parameter)
                        gs = self.P.global_cell(cur_body, nxt[0], through_helpers=True)
                        if len(gs) == 1:
                            g0 = next(iter(gs))
                            if g0[1] in ("param", "upvar"):
                                self.bounds[g0] = self._sym(g0)
                                res = ("int", ("sym", self._sym(g0)))
                                break
                    if len(nxt) == 1 and nxt[0][0] == "agg":
                        st = cur_body.blocks[nxt[0][1][0]]["stmts"][nxt[0][1][1]]["rv"]
                        if st.get("ak") == "adt" and norm(st.get("def") or "") == "std::option::Option":
                            lty = cur_body.locals[cur_body.blocks[nxt[0][1][0]]["stmts"][nxt[0][1][1]]["lhs"][0]]["ty"]
                            targs = (lty.get("args") or [{}])
                            isint = bool(targs) and targs[0].get("k") == "prim" and targs[0].get("s") in INT_TYS
                            res = ("optcell", st.get("variant") == "Some", "int" if isint else "any")
                        else:
                            res = ("obj", "aggregate")
                        break
                    res = ("obj", "computed")
                    break
                res = ("obj", norm(p))
                break
        elif rk == "param" and rd == 1 and path and body.kind == "assoc" and body.impl_self is not None:
            res = self._field_kind(norm(ty_adt(body.impl_self) or ""), path) or ("ext", None)
        elif rk == "ret" and path and self._wrapped_field_kind(body, rd, path) is not None:
            # a field of a private state struct that sits behind one Arc::new / Box::new: Arc::new(State { filled: Mutex::new(0), .. })
            res = self._wrapped_field_kind(body, rd, path)
        elif rk in ("param", "upvar") or (rk == "ret" and path):
            res = ("ext", None)
        self.cellinfo[g] = res
        return res

    def _wrapped_field_kind(self, body, bb, path):
        c = body.call_at(bb)
        if c is None or c.path not in ("std::sync::Arc::new", "std::boxed::Box::new", "std::rc::Rc::new") or not c.args or len(path) != 1:
            return None
        ren = self.P.facts.get("_field_renames_q") or {}
        for t in body.operand_prov(c.args[0]):
            if t[0] != "agg":
                continue
            rv = body.blocks[t[1][0]]["stmts"][t[1][1]]["rv"]
            if rv.get("ak") != "adt":
                continue
            adt = norm(rv.get("def") or "")
            a = self.P.adts.get(adt)
            if a is None or len(a["variants"]) != 1:
                continue
            canon = [ren.get((adt, f["name"]), f["name"]) for f in a["variants"][0]["fields"]]
            if path[0] not in canon or canon.index(path[0]) >= len(rv["ops"]):
                continue
            for t2 in body.operand_prov(rv["ops"][canon.index(path[0])]):
                if t2[0] == "ret" and not t2[2]:
                    k = self._alloc_kind((body.id, "ret", t2[1], ()))
                    if k and k[0] in ("int", "flag", "optcell", "cont", "obj"):
                        return k
        return None

    def _field_kind(self, adt, path):
        """kind of a lock-typed field of `adt` (possibly nested in private state structs: self.shared.last_item), read off
        the aggregate its constructor builds"""
        if isinstance(path, str):
            path = (path,)
        ren = self.P.facts.get("_field_renames_q") or {}

        def field_index(adt_, name):
            a = self.P.adts.get(adt_)
            if a is None or len(a["variants"]) != 1:
                return None
            canon = [ren.get((adt_, f["name"]), f["name"]) for f in a["variants"][0]["fields"]]
            return canon.index(name) if name in canon else None

        def descend(cb, rv, adt_, rest, depth=0):
            """rv: aggregate rvalue of adt_ in body cb; rest: remaining field path"""
            if depth > 4 or not rest:
                return None
            idx = field_index(adt_, rest[0])
            if idx is None or idx >= len(rv["ops"]):
                return None
            for t in cb.operand_prov(rv["ops"][idx]):
                if len(rest) == 1:
                    if t[0] == "ret" and not t[2]:
                        k = self._alloc_kind((cb.id, "ret", t[1], ()))
                        if k and k[0] in ("int", "flag", "optcell", "cont"):
                            return k
                else:
                    # the nested state struct, possibly behind Arc::new / Box::new
                    cands = [t]
                    if t[0] == "ret" and not t[2]:
                        k = cb.call_at(t[1])
                        if k is not None and k.path.split("::")[-1] == "new" and k.path.startswith("std::") and k.args:
                            cands = list(cb.operand_prov(k.args[0]))
                    for t2 in cands:
                        if t2[0] != "agg":
                            continue
                        rv2 = cb.blocks[t2[1][0]]["stmts"][t2[1][1]]["rv"]
                        if rv2.get("ak") == "adt":
                            r_ = descend(cb, rv2, norm(rv2.get("def") or ""), rest[1:], depth + 1)
                            if r_:
                                return r_
            return None

        for cb in self.P.bodies.values():
            if cb.kind not in ("assoc", "fn") or cb.id in self.P.absorbed:
                continue
            for i in sorted(cb.reach):
                for st in cb.blocks[i]["stmts"]:
                    if st["k"] == "assign" and st["rv"]["k"] == "agg" and st["rv"].get("ak") == "adt" and norm(st["rv"].get("def") or "") == adt:
                        k = descend(cb, st["rv"], adt, tuple(path))
                        if k:
                            return k
        return None

    def _sym(self, g):
        return "%s|%s|%s|%s" % (norm(g[0]), g[1], g[2], "/".join(g[3]))

    def cellsym(self, g):
        """state-vector name of a cell (or of the integer payload of an Option cell)"""
        if len(g) == 2 and g[1] == "val":
            return "ov:" + self._sym(g[0])
        k = self.cellinfo.get(g)
        pre = {"int": "", "flag": "f:", "optcell": "o:", "cont": "len:"}.get(k[0] if k else "", "")
        return pre + self._sym(g)

    # -- evaluation
    def _item_variants(self):
        """variant names of the item type when it is a crate enum (Material)"""
        b = self.b
        if self.item_param >= len(b.locals):
            return None
        a = self.P.adts.get(norm(ty_adt(b.locals[self.item_param]["ty"]) or ""))
        if a is None or len(a["variants"]) < 2:
            return None
        return [v["name"] for v in a["variants"]]

    def _place_ty(self, place):
        b = self.b
        l = place[0]
        ty = b.locals[l]["ty"] if l < len(b.locals) else None
        for e in place[1:]:
            if ty is None:
                return None
            if e == "*":
                ty = ty.get("inner") if ty.get("k") in ("ref", "ptr") else None
            else:
                return None
        return ty

    def _is_intlike(self, ty):
        return ty is not None and ty.get("k") == "prim" and ty.get("s") in INT_TYS

    def read_place(self, p, place, want_int=False):
        b = self.b
        projs = place[1:]
        if not projs:
            return p.env.get(place[0], TOP)
        # a field of a tuple / Option held in the environment
        base = p.env.get(place[0])
        if isinstance(base, tuple) and base and base[0] == "valref" and all(e == "*" for e in projs):
            return base[1]       # a reference returned by get_or_insert & co., resolved to the value it points to
        if isinstance(base, tuple) and base and base[0] in ("elem", "item", "stored", "captured", "mapped", "front", "back", "error",
                                                             "combined", "boxed", "adt", "itemfield") and all(e == "*" for e in projs):
            return base          # a reference to a value the abstraction only names: the name stands for it
        if isinstance(base, tuple) and base and base[0] == "valref":
            # `match &previous { Some(p) => .. }`: projections through a reference to a local that holds a structured value
            base, projs = base[1], [e_ for e_ in projs if e_ != "*"]
        if base is not None and "*" not in projs:
            # (a reference to a structured value held in the environment stands for that value: `match &previous { Some(p) => .. }`)
            v = base
            for e in projs:
                if isinstance(v, tuple) and v and v[0] == "tuple" and e.startswith(".") and e[1:].split(":")[0].isdigit():
                    i = int(e[1:].split(":")[0])
                    v = v[1][i] if i < len(v[1]) else TOP
                elif isinstance(v, tuple) and v and v[0] in ("opt", "res") and e.startswith("@"):
                    continue
                elif isinstance(v, tuple) and v and v[0] == "res" and e.startswith("."):
                    v = v[2]
                elif isinstance(v, tuple) and v and v[0] == "item" and e.startswith("@"):
                    v = ("itemfield", e[1:])
                elif isinstance(v, tuple) and v and v[0] == "itemfield" and e.startswith("."):
                    continue
                elif isinstance(v, tuple) and v and v[0] == "opt" and e.startswith("."):
                    v = v[2]
                else:
                    v = TOP
                    break
            return v
        gs = self._gcells(b.place_prov(place))
        if not gs or len(gs) != 1:
            return TOP
        g = next(iter(gs))
        if g[3] and g[3][0].startswith("@"):
            # the payload of an Option-valued state cell: ((*cell) as Some).0
            root = (g[0], g[1], g[2], ())
            rkind = self._alloc_kind(root) or ("?",)
            if rkind[0] == "optcell":
                vk = (root, "val")
                if vk in p.cells or self._is_intlike(self._place_ty(place)) or want_int or (len(rkind) > 2 and rkind[2] == "int"):
                    return p.cells.get(vk, INT("ov:" + self._sym(root)))
                return ("stored",)
        kind = self._alloc_kind(g)
        ty = self._place_ty(place)
        if kind and kind[0] == "flag":
            if ty is None or ty.get("s") == "bool":
                return p.cells.get(g, ("bvar", "f:" + self._sym(g)))
            return TOP
        if kind and kind[0] == "optcell":
            if ty is None or norm(ty_adt(ty) or "") == "std::option::Option":
                dflt = INT("ov:" + self._sym(g)) if (len(kind) > 2 and kind[2] == "int") else ("stored",)
                return ("opt", p.cells.get(g, ("bvar", "o:" + self._sym(g))), p.cells.get((g, "val"), dflt))
            return TOP
        if not want_int and ty is not None and not self._is_intlike(ty):
            return TOP
        if kind and kind[0] == "int":
            return p.cells.get(g, INT(self._sym(g)))
        if kind and kind[0] == "ext" and g[0] == b.id and g[1] == "param":
            if g[2] == self.item_param:
                return (self.item_kind,)
            if self.serial_param is not None and g[2] == self.serial_param and not g[3]:
                return INT("in:serial")
            return TOP      # the handler's own arguments
        if kind and kind[0] == "ext":
            # a captured plain value (the operator's parameter): immutable symbol
            if ty is not None and not self._is_intlike(ty) and not want_int:
                return ("captured",)
            if ty is None and not want_int:
                return ("captured",)
            self.bounds[g] = self._sym(g)
            return INT(self._sym(g))
        return TOP

    def operand(self, p, o, want_int=False):
        if o["k"] == "const":
            if o.get("s") == "true":
                return TRUE
            if o.get("s") == "false":
                return FALSE
            if "int" in o:
                return INT(None, o["int"])
            return TOP
        return self.read_place(p, o["p"], want_int)

    def rvalue(self, p, rv, lhs_ty):
        k = rv["k"]
        if k == "use":
            return self.operand(p, rv["op"], self._is_intlike(lhs_ty))
        if k == "ref":
            # a reference to a value the abstraction names (the item, a captured value, ..) stands for it;
            # references to cells are resolved at the dereference through provenance instead
            v = self.read_place(p, rv["p"])
            if len(rv["p"]) == 1 and isinstance(v, tuple) and v and v[0] in ("opt", "tuple", "res"):
                return ("valref", v)      # a reference to a LOCAL holding a structured value (not to a cell: those are re-read at the deref)
            if isinstance(v, tuple) and v and v[0] in ("captured", "item", "error", "stored", "front", "back", "bufcopy",
                                                       "window", "mapped", "tuple", "opt", "int", "bconst", "bvar", "cmp", "not",
                                                       "and", "or", "ord", "combined", "elem"):
                return v
            return TOP
        if k == "cast":
            v = self.operand(p, rv["op"], True)
            if is_int(v) or (isinstance(v, tuple) and v and v[0] in ("boxed", "item", "stored", "captured", "mapped", "adt")):
                return v          # integer width change / unsizing coercion: the same value
            return TOP
        if k == "binop":
            op = rv["op"]
            arith = op in ("Add", "Sub", "AddWithOverflow", "SubWithOverflow", "AddUnchecked", "SubUnchecked")
            a = self.operand(p, rv["a"], True)
            c = self.operand(p, rv["b"], True)
            if arith:
                res, ovf = TOP, FALSE
                if is_int(a) and is_int(c):
                    sub = op.startswith("Sub")
                    if c[1] is None:
                        res = INT(a[1], a[2] - c[2] if sub else a[2] + c[2])
                    elif a[1] is None and not sub:
                        res = INT(c[1], a[2] + c[2])
                    elif sub and a[1] == c[1]:
                        res = INT(None, a[2] - c[2])
                    if sub:
                        ovf = ("cmp", "Lt", a, c)       # unsigned underflow
                if op.endswith("WithOverflow"):
                    return ("tuple", [res, ovf])
                return res
            if op in ("Lt", "Le", "Gt", "Ge", "Eq", "Ne"):
                if is_int(a) and is_int(c):
                    if a[1] is not None and a[1] == c[1]:
                        return ("bconst", {"Lt": a[2] < c[2], "Le": a[2] <= c[2], "Gt": a[2] > c[2], "Ge": a[2] >= c[2],
                                           "Eq": a[2] == c[2], "Ne": a[2] != c[2]}[op])
                    return ("cmp", op, a, c)
                if is_bool(a) and is_bool(c) and op in ("Eq", "Ne"):
                    e = ("or", ("and", a, c), ("and", b_not(a), b_not(c)))
                    return e if op == "Eq" else b_not(e)
                return TOP
            if op in ("BitAnd", "BitOr") and is_bool(a) and is_bool(c):
                return ("and" if op == "BitAnd" else "or", a, c)
            return TOP
        if k == "unop":
            a = self.operand(p, rv.get("a") or rv.get("op"), False)
            if rv["op"] == "Not" and is_bool(a):
                return b_not(a)
            return TOP
        if k == "agg":
            if rv["ak"] == "tuple":
                return ("tuple", [self.operand(p, o) for o in rv["ops"]])
            if rv["ak"] == "adt" and norm(rv.get("def") or "") == "std::option::Option":
                if rv.get("variant") == "Some":
                    return ("opt", TRUE, self.operand(p, rv["ops"][0]) if rv["ops"] else TOP)
                return ("opt", FALSE, TOP)
            if rv["ak"] == "adt" and norm(rv.get("def") or "") in self.P.adts:
                return ("adt", rv.get("variant") or norm(rv["def"]).split("::")[-1], [self.operand(p, o) for o in rv["ops"]])
            return TOP
        if k == "discr":
            v = self.read_place(p, rv["p"])
            if isinstance(v, tuple) and v and v[0] == "opt":
                return ("disc", v[1])
            if isinstance(v, tuple) and v and v[0] == "ord":
                return ("orddisc", v[1], v[2])
            if isinstance(v, tuple) and v and v[0] == "res":
                return ("disc", b_not(v[1]))         # Ok = 0, Err = 1
            if isinstance(v, tuple) and v and v[0] == "item":
                names = self._item_variants()
                if names:
                    return ("vdisc", "in:variant", names)
            return TOP
        return TOP

    def _store(self, p, lhs, v, line):
        b = self.b
        if len(lhs) == 1:
            p.env[lhs[0]] = v
            return
        if "*" not in lhs:
            base = p.env.get(lhs[0])
            e = lhs[1]
            if isinstance(base, tuple) and base and base[0] == "tuple" and len(lhs) == 2 and e[1:].split(":")[0].isdigit():
                vals = list(base[1])
                i = int(e[1:].split(":")[0])
                if i < len(vals):
                    vals[i] = v
                    p.env[lhs[0]] = ("tuple", vals)
                    return
            p.env[lhs[0]] = TOP
            return
        gs = self._gcells(b.place_prov(lhs))
        if not gs:
            return
        for g in gs:
            kind = self._alloc_kind(g)
            if kind and kind[0] == "int":
                if len(gs) == 1 and is_int(v):
                    p.cells[g] = v
                else:
                    p.cells[g] = TOP
                    p.note.append("untracked store to the counter at line %s" % line)
            elif kind and kind[0] == "flag":
                p.cells[g] = v if (len(gs) == 1 and is_bool(v)) else TOP
                p.trace.append(("set_flag",))
            elif kind and kind[0] == "optcell":
                if len(gs) == 1 and isinstance(v, tuple) and v and v[0] == "opt" and is_bool(v[1]):
                    p.cells[g] = v[1]
                    if is_int(v[2]):
                        p.cells[(g, "val")] = v[2]
                    if v[1] != FALSE:
                        p.trace.append(("remember", self._vkind(v[2])))
                else:
                    p.cells[g] = TOP
            elif kind and kind[0] == "cont":
                p.cells[g] = TOP
                p.trace.append(("cont_replace", self._sym(g)))
            elif kind and kind[0] == "obj":
                p.trace.append(("store", kind[1] if isinstance(kind[1], str) else "obj"))

    def _len(self, p, g):
        return p.cells.get(g, INT("len:" + self._sym(g)))

    @staticmethod
    def _vkind(v):
        if isinstance(v, tuple) and v:
            if v[0] in ("item", "front", "back", "bufcopy", "window", "captured", "stored", "mapped", "error", "combined", "subscription"):
                return v[0]
            if v[0] == "int":
                return "int"
            if v[0] == "bconst":
                return "const:%s" % str(v[1]).lower()
        return "other"

    def _value_kind(self, p, v):
        if isinstance(v, tuple) and v and v[0] in ("item", "front", "back", "bufcopy", "window", "captured", "stored", "mapped",
                                                   "error", "combined", "elem"):
            return v[0]
        if isinstance(v, tuple) and v and v[0] == "bconst":
            return "const:%s" % str(v[1]).lower()
        if is_int(v):
            p.note.append(("intpayload", v))
            return "int"
        if isinstance(v, tuple) and v and v[0] == "tuple":
            return "tuple:" + ",".join(self._value_kind(p, x) or "other" for x in v[1])
        if isinstance(v, tuple) and v and v[0] == "adt":
            return "%s(%s)" % (v[1], ",".join(self._value_kind(p, x) or "other" for x in v[2]))
        if isinstance(v, tuple) and v and v[0] == "itemfield":
            return "item.%s" % v[1]
        if isinstance(v, tuple) and v and v[0] == "boxed":
            return "boxed(%s)" % (self._value_kind(p, v[1]) or "other")
        return None

    def _payload_kind(self, p, c, idx):
        """what a sink_next / Subject::next hands on"""
        b = self.b
        if idx >= len(c.args):
            return "?"
        a = c.args[idx]
        v = self.operand(p, a)
        k0 = self._value_kind(p, v)
        if k0 is not None:
            return k0
        kinds = set()
        for t in b.operand_prov(a):
            if t[0] == "param" and t[1] == self.item_param:
                kinds.add(self.item_kind)
            elif t[0] == "ret":
                cc = b.call_at(t[1])
                if cc is not None and (cc.path in POP_FRONT or cc.path == "std::vec::Vec::remove"):
                    kinds.add("front")
                elif cc is not None and cc.path in POP_BACK:
                    kinds.add("back")
                elif cc is not None and atom(cc) == "subject_observable":
                    kinds.add("window")
                else:
                    kinds.add("other")
            else:
                gs = self._gcells([t]) or set()
                ks = {(self._alloc_kind((g[0], g[1], g[2], ())) or ("?",))[0] for g in gs}
                if ks == {"cont"}:
                    kinds.add("elem" if any("[]" in g[3] for g in gs) else "bufcopy")
                else:
                    kinds.add("other")
        return "+".join(sorted(kinds)) if kinds else "?"

    def _call(self, p, c, out):
        """interpret call c on path p; append successor paths (path, next bb) to out"""
        b = self.b
        tgt = c.target
        dest = c.raw["dest"] if isinstance(c.raw, dict) and "dest" in c.raw else None
        dl = dest[0] if dest and len(dest) == 1 else None

        def done(q, v=TOP):
            if dl is not None:
                q.env[dl] = v
            out.append((q, tgt))

        path = c.path
        a = atom(c)
        recv_g = None
        if c.args and (path in PUSH_BACK | PUSH_FRONT | POP_FRONT | POP_BACK | LEN | IS_EMPTY | CLEAR
                       or path.startswith("std::collections::VecDeque::") or path.startswith("std::vec::Vec::")):
            gs = self._gcells(b.operand_prov(c.args[0]))
            if gs and len(gs) == 1:
                g = next(iter(gs))
                if (self._alloc_kind(g) or ("?",))[0] == "cont":
                    recv_g = g
        if recv_g is not None:
            ln = self._len(p, recv_g)
            if path in LEN:
                return done(p, ln)
            if path in IS_EMPTY:
                return done(p, ("cmp", "Eq", ln, INT(None, 0)) if is_int(ln) else TOP)
            if path in PUSH_BACK | PUSH_FRONT:
                p.trace.append(("push_back" if path in PUSH_BACK else "push_front", self._payload_kind(p, c, 1)))
                p.cells[recv_g] = INT(ln[1], ln[2] + 1) if is_int(ln) else TOP
                return done(p)
            if path in POP_FRONT | POP_BACK:
                which = "front" if path in POP_FRONT else "back"
                if not is_int(ln):
                    p.trace.append(("pop_" + which,))
                    return done(p, ("opt", TOP, (which,)))
                q = p.fork()
                cond = ("cmp", "Gt", ln, INT(None, 0))
                p.pc.append(cond)
                p.trace.append(("pop_" + which,))
                p.cells[recv_g] = INT(ln[1], ln[2] - 1)
                done(p, ("opt", TRUE, (which,)))
                q.pc.append(b_not(cond))
                done(q, ("opt", FALSE, TOP))
                return
            if path == "std::vec::Vec::remove" and len(c.args) > 1 and c.args[1].get("k") == "const" and c.args[1].get("int") == 0 \
                    and is_int(ln):
                q = p.fork()
                cond = ("cmp", "Gt", ln, INT(None, 0))
                p.pc.append(cond)
                p.trace.append(("pop_front",))
                p.cells[recv_g] = INT(ln[1], ln[2] - 1)
                done(p, ("front",))
                q.pc.append(b_not(cond))
                q.trace.append(("panic",))
                self.paths.append(q)
                return
            if path in CLEAR:
                p.trace.append(("clear",))
                p.cells[recv_g] = INT(None, 0)
                return done(p)
            name = path.split("::")[-1]
            if name in ("get", "front", "first"):
                return done(p, ("opt", TOP, ("elem",)))
            if name in ("iter", "back", "capacity", "as_slices", "contains", "last"):
                return done(p)
            if name in ("truncate", "drain", "retain", "remove", "insert", "append", "extend", "split_off", "resize", "swap_remove"):
                p.cells[recv_g] = TOP
                p.trace.append(("cont_" + name,))
                return done(p)
            return done(p)
        if path in ("std::collections::HashMap::get", "std::collections::HashMap::get_mut") and c.args:
            return done(p, ("opt", ("bvar", "in:known"), ("elem",)))
        if path == "std::collections::HashMap::contains_key" and c.args:
            return done(p, ("bvar", "in:known"))
        if path in ("std::iter::Iterator::all", "std::iter::Iterator::any") and c.args and not (self.sink_param or self.sink_upvar):
            tgts = self.E.inline_targets(c)
            if not any(self.E.may(t_) & {"sink_next", "sink_complete", "sink_error", "obs_next"} for t_ in tgts):
                return done(p, ("bvar", "in:" + path.split("::")[-1]))
        if path.startswith("std::iter::Iterator::") and c.args:
            fan = set()
            for t_ in self.E.inline_targets(c):
                for k_ in t_.calls:
                    a_ = atom(k_)
                    if a_ in ("subject_next", "subject_error", "subject_complete"):
                        fan.add(a_)
            for a_ in sorted(fan):
                p.trace.append(("window_" + a_.split("_")[1], "each") if a_ == "subject_next" else ("window_" + a_.split("_")[1],))
            if fan:
                return done(p)
        if path == "std::collections::HashMap::insert" and len(c.args) >= 2:
            kv = self.operand(p, c.args[1], True)
            p.trace.append(("map_insert",))
            if is_int(kv):
                p.note.append(("mapkey", kv))
            return done(p)
        if path in ("std::ops::Index::index", "std::ops::IndexMut::index_mut") and c.args:
            gs = self._gcells(b.operand_prov(c.args[0]))
            if gs and len(gs) == 1 and (self._alloc_kind((lambda g: (g[0], g[1], g[2], ()))(next(iter(gs)))) or ("?",))[0] == "cont":
                return done(p, ("elem",))
            return done(p)
        if path in ("std::mem::take", "std::mem::replace") and c.args:
            gs = self._gcells(b.operand_prov(c.args[0]))
            if gs and len(gs) == 1:
                g = next(iter(gs))
                kind = self._alloc_kind(g)
                if kind and kind[0] == "cont":
                    p.trace.append(("take_all",))
                    p.cells[g] = INT(None, 0)
                    return done(p, ("bufcopy",))
                if kind and kind[0] == "optcell":
                    old = p.cells.get(g, ("bvar", "o:" + self._sym(g)))
                    if path.endswith("take"):
                        p.cells[g] = FALSE
                    else:
                        nv = self.operand(p, c.args[1]) if len(c.args) > 1 else TOP
                        p.cells[g] = nv[1] if (isinstance(nv, tuple) and nv and nv[0] == "opt" and is_bool(nv[1])) else TOP
                    return done(p, ("opt", old, ("stored",)))
                if kind and kind[0] == "flag":
                    old = p.cells.get(g, ("bvar", "f:" + self._sym(g)))
                    nv = FALSE if path.endswith("take") else (self.operand(p, c.args[1]) if len(c.args) > 1 else TOP)
                    p.cells[g] = nv if is_bool(nv) else TOP
                    return done(p, old)
                if kind and kind[0] == "int":
                    old = p.cells.get(g, INT(self._sym(g)))
                    nv = INT(None, 0) if path.endswith("take") else (self.operand(p, c.args[1], True) if len(c.args) > 1 else TOP)
                    p.cells[g] = nv if is_int(nv) else TOP
                    return done(p, old)
            return done(p)
        aop = atomic_op(path)
        if aop and c.args:
            gs = self._gcells(b.operand_prov(c.args[0]))
            g = next(iter(gs)) if gs and len(gs) == 1 else None
            if g is not None and (self._alloc_kind(g) or ("?",))[0] == "flag":
                old = p.cells.get(g, ("bvar", "f:" + self._sym(g)))
                name = path.split("::")[-1]
                if aop == "LOAD":
                    return done(p, old)
                arg = self.operand(p, c.args[1]) if len(c.args) > 1 else TOP
                if name in ("store", "swap") and is_bool(arg):
                    p.cells[g] = arg
                    p.trace.append(("set_flag",))
                    return done(p, old)
                if name == "fetch_or" and is_bool(arg):
                    p.cells[g] = ("or", old, arg)
                    return done(p, old)
                if name == "fetch_and" and is_bool(arg):
                    p.cells[g] = ("and", old, arg)
                    return done(p, old)
                p.cells[g] = TOP
                return done(p)
            if g is not None and (self._alloc_kind(g) or ("?",))[0] == "int":
                old = p.cells.get(g, INT(self._sym(g)))
                name = path.split("::")[-1]
                if aop == "LOAD":
                    return done(p, old)
                arg = self.operand(p, c.args[1], True) if len(c.args) > 1 else TOP
                if name in ("fetch_add", "fetch_sub") and is_int(old) and is_int(arg) and arg[1] is None:
                    p.cells[g] = INT(old[1], old[2] + (arg[2] if name == "fetch_add" else -arg[2]))
                    return done(p, old)
                if name in ("store", "swap") and is_int(arg):
                    p.cells[g] = arg
                    return done(p, old)
                if name in ("compare_exchange", "compare_exchange_weak", "compare_and_swap") and len(c.args) > 2 and is_int(old) and is_int(arg):
                    newv = self.operand(p, c.args[2], True)
                    hit = ("cmp", "Eq", old, arg)
                    if is_int(newv):
                        q = p.fork()
                        p.pc.append(hit)
                        p.cells[g] = newv
                        done(p, ("res", TRUE, old))
                        q.pc.append(b_not(hit))
                        done(q, ("res", FALSE, old))
                        return
                p.cells[g] = TOP
                return done(p)
        last = path.split("::")[-1]
        if path in ("std::cmp::Ord::cmp", "std::cmp::PartialOrd::partial_cmp") and len(c.args) == 2:
            x_, y_ = self.operand(p, c.args[0], True), self.operand(p, c.args[1], True)
            if is_int(x_) and is_int(y_):
                o_ = ("ord", x_, y_)
                return done(p, o_ if path.endswith("::cmp") else ("opt", TRUE, o_))
            return done(p)
        if path.startswith("std::cmp::Ordering::") and last in ("is_lt", "is_le", "is_gt", "is_ge", "is_eq", "is_ne") and c.args:
            o_ = self.operand(p, c.args[0])
            if isinstance(o_, tuple) and o_ and o_[0] == "ord":
                return done(p, ("cmp", {"is_lt": "Lt", "is_le": "Le", "is_gt": "Gt", "is_ge": "Ge", "is_eq": "Eq", "is_ne": "Ne"}[last], o_[1], o_[2]))
            return done(p)
        if path in ("std::cmp::PartialOrd::lt", "std::cmp::PartialOrd::le", "std::cmp::PartialOrd::gt", "std::cmp::PartialOrd::ge") and len(c.args) == 2:
            x_, y_ = self.operand(p, c.args[0], True), self.operand(p, c.args[1], True)
            if is_int(x_) and is_int(y_):
                return done(p, ("cmp", {"lt": "Lt", "le": "Le", "gt": "Gt", "ge": "Ge"}[last], x_, y_))
        if (path.startswith("core::num::") or path.startswith("std::num::")) and len(c.args) == 2 and last in (
                "checked_sub", "checked_add", "saturating_sub", "saturating_add", "wrapping_add", "wrapping_sub"):
            x_, y_ = self.operand(p, c.args[0], True), self.operand(p, c.args[1], True)
            if is_int(x_) and is_int(y_) and y_[1] is None:
                if last in ("checked_add", "saturating_add", "wrapping_add"):
                    r_ = INT(x_[1], x_[2] + y_[2])
                    return done(p, ("opt", TRUE, r_) if last == "checked_add" else r_)
                fits = ("cmp", "Ge", x_, y_)
                r_ = INT(x_[1], x_[2] - y_[2])
                if last == "checked_sub":
                    return done(p, ("opt", fits, r_))
                if last == "saturating_sub":
                    q = p.fork()
                    p.pc.append(fits)
                    done(p, r_)
                    q.pc.append(b_not(fits))
                    done(q, INT(None, 0))
                    return
            return done(p)
        if path in ("std::cmp::Ord::min", "std::cmp::Ord::max", "std::cmp::min", "std::cmp::max") and len(c.args) == 2:
            x_, y_ = self.operand(p, c.args[0], True), self.operand(p, c.args[1], True)
            if is_int(x_) and is_int(y_):
                le = ("cmp", "Le", x_, y_)
                q = p.fork()
                p.pc.append(le)
                done(p, x_ if last == "min" else y_)
                q.pc.append(b_not(le))
                done(q, y_ if last == "min" else x_)
                return
            return done(p)
        if path in ("std::ops::Add::add", "std::ops::AddAssign::add_assign") and len(c.args) == 2 and not (
                is_int(self.operand(p, c.args[0], True)) and is_int(self.operand(p, c.args[1], True))):
            ks = sorted(self._payload_kind(p, c, i) for i in (0, 1))
            p.trace.append(("combine", "+".join(ks)))
            return done(p, ("combined",))
        if path in ("std::cmp::PartialOrd::lt", "std::cmp::PartialOrd::le", "std::cmp::PartialOrd::gt", "std::cmp::PartialOrd::ge") and len(c.args) == 2:
            k1, k2 = self._payload_kind(p, c, 0), self._payload_kind(p, c, 1)
            if {k1, k2} == {"item", "stored"}:
                op_ = last
                if k1 == "stored":      # stored OP item  ==  item (mirrored OP) stored
                    op_ = {"lt": "gt", "gt": "lt", "le": "ge", "ge": "le"}[op_]
                e_ = {"lt": ("bvar", "in:lt"), "gt": ("bvar", "in:gt"), "le": b_not(("bvar", "in:gt")), "ge": b_not(("bvar", "in:lt"))}[op_]
                return done(p, e_)
            return done(p)
        if a == "fw_call":
            dty = b.locals[dl]["ty"] if dl is not None else None
            argk = self._payload_kind(p, c, 1) if len(c.args) > 1 else "?"
            p.trace.append(("user_fn", argk))
            if dty is not None and dty.get("s") == "bool":
                return done(p, ("bvar", "in:pred"))
            return done(p, ("mapped",))
        if path in ("std::cmp::PartialEq::eq", "std::cmp::PartialEq::ne") and len(c.args) == 2 and \
                is_int(self.operand(p, c.args[0], True)) and is_int(self.operand(p, c.args[1], True)):
            return done(p, ("cmp", "Eq" if path.endswith("::eq") else "Ne", self.operand(p, c.args[0], True), self.operand(p, c.args[1], True)))
        if path in ("std::cmp::PartialEq::eq", "std::cmp::PartialEq::ne") and len(c.args) == 2:
            o1, o2 = self.operand(p, c.args[0]), self.operand(p, c.args[1])
            o1, o2 = (o[1] if isinstance(o, tuple) and o and o[0] == "valref" else o for o in (o1, o2))     # `x == &Some(k)`
            if all(isinstance(o, tuple) and o and o[0] == "opt" and is_bool(o[1]) for o in (o1, o2)) and \
                    all(is_int(o[2]) or o[1] == FALSE for o in (o1, o2)):
                both = ("and", o1[1], o2[1])
                if is_int(o1[2]) and is_int(o2[2]):
                    both = ("and", both, ("cmp", "Eq", o1[2], o2[2]))
                elif o1[1] != FALSE and o2[1] != FALSE:
                    both = FALSE
                e_ = ("or", both, ("and", b_not(o1[1]), b_not(o2[1])))
                return done(p, e_ if path.endswith("::eq") else b_not(e_))
        if path in ("std::cmp::PartialEq::eq", "std::cmp::PartialEq::ne") and len(c.args) == 2:
            ks = sorted(self._payload_kind(p, c, i) for i in (0, 1))
            e = ("bvar", "in:eq:" + "=".join(ks))
            return done(p, e if path.endswith("::eq") else b_not(e))
        if path in ("std::option::Option::take", "std::option::Option::replace", "std::option::Option::insert",
                    "std::option::Option::get_or_insert") and c.args:
            gs = self._gcells(b.operand_prov(c.args[0]))
            g = next(iter(gs)) if gs and len(gs) == 1 else None
            if g is not None and (self._alloc_kind(g) or ("?",))[0] == "optcell":
                old = p.cells.get(g, ("bvar", "o:" + self._sym(g)))
                name = path.split("::")[-1]
                if name == "take":
                    p.cells[g] = FALSE
                    return done(p, ("opt", old, ("stored",)))
                if name == "get_or_insert":
                    nv = self.operand(p, c.args[1], True) if len(c.args) > 1 else TOP
                    cur = p.cells.get((g, "val"), INT("ov:" + self._sym(g)))
                    if is_int(nv) and is_bool(old):
                        if old == TRUE:
                            return done(p, ("valref", cur))
                        if old == FALSE:
                            p.cells[g] = TRUE
                            p.cells[(g, "val")] = nv
                            p.trace.append(("remember", "int"))
                            return done(p, ("valref", nv))
                        q = p.fork()
                        p.pc.append(old)
                        done(p, ("valref", cur))
                        q.pc.append(b_not(old))
                        q.cells[g] = TRUE
                        q.cells[(g, "val")] = nv
                        q.trace.append(("remember", "int"))
                        done(q, ("valref", nv))
                        return
                    p.cells[g] = TRUE
                    if not is_int(nv):
                        p.trace.append(("remember", self._payload_kind(p, c, 1)))
                    return done(p, ("stored",))
                p.cells[g] = TRUE
                p.trace.append(("remember", self._payload_kind(p, c, 1)))
                return done(p, ("opt", old, ("stored",)) if name == "replace" else ("stored",))
        if path in ("std::iter::Iterator::rev", "std::iter::DoubleEndedIterator::next_back", "std::iter::DoubleEndedIterator::rfold",
                    "std::iter::DoubleEndedIterator::rfind"):
            p.trace.append(("reversed",))
            return done(p)
        if path in ("std::boxed::Box::new", "std::sync::Arc::new", "std::rc::Rc::new") and c.args:
            v_ = self.operand(p, c.args[0])
            if self._value_kind(p, v_) is not None:
                return done(p, v_ if (isinstance(v_, tuple) and v_ and v_[0] == "boxed") else ("boxed", v_))
            return done(p)
        if a in ("obs_next", "obs_error", "obs_complete") and c.args and (
                (self.sink_param is not None and all(t_[0] == "param" and t_[1] == self.sink_param for t_ in b.operand_prov(c.args[0])))
                or (self.sink_upvar is not None and all(t_[0] == "upvar" and t_[1] == self.sink_upvar for t_ in b.operand_prov(c.args[0])))):
            # the subscriber itself (creation functions emit on it directly)
            if a == "obs_next":
                v_ = self.operand(p, c.args[1]) if len(c.args) > 1 else TOP
                if is_int(v_) and v_[1] is None:
                    p.trace.append(("sink_next", "int", v_[2]))       # a source emitting a known number (interval's tick count)
                else:
                    p.trace.append(("sink_next", self._payload_kind(p, c, 1)))
            else:
                p.trace.append(("sink_error",) if a == "obs_error" else ("sink_complete",))
            return done(p)
        if a == "subscribe" and self.sink_param is not None:
            p.trace.append(("subscribe", self._payload_kind(p, c, 0)))
            return done(p)
        if c.trait in ("std::ops::Fn", "std::ops::FnMut", "std::ops::FnOnce") and c.args and dl is not None \
                and b.locals[dl]["ty"].get("s") == "bool":
            # the user's predicate invoked directly (a closure wrapping it)
            p.trace.append(("user_fn", "args"))
            return done(p, ("bvar", "in:pred"))
        if c.trait in ("std::ops::Fn", "std::ops::FnMut", "std::ops::FnOnce") and self.sink_param is not None and c.args:
            p.trace.append(("user_fn", "()"))
            return done(p, ("mapped",))
        if a in ("obs_next", "obs_error", "obs_complete"):
            # a side observer built from the user's callbacks (tap)
            p.trace.append(("user_fn", self._payload_kind(p, c, 1) if a != "obs_complete" else "?"))
            return done(p)
        if a in ("sink_next",):
            p.trace.append(("sink_next", self._payload_kind(p, c, 1)))
            return done(p)
        if a == "sub_unsubscribe":
            p.trace.append(("sub_unsubscribe", self._payload_kind(p, c, 0)))
            return done(p)
        if a == "subscribe" and self.sink_param is None:
            p.trace.append(("subscribe", "source"))
            return done(p, ("subscription",))
        if a in ("sink_error", "sink_complete", "sink_complete_force", "abort", "finalize"):
            p.trace.append((a,))
            return done(p)
        if a in ("subject_next",):
            p.trace.append(("window_next", self._payload_kind(p, c, 1)))
            return done(p)
        if a in ("subject_complete", "subject_error"):
            p.trace.append(("window_" + a.split("_")[1],))
            return done(p)
        if a == "subject_observable":
            return done(p, ("window",))
        if a == "is_subscribed":
            # whether the subscription is still live is an input of the handler, the same for the whole call
            return done(p, ("bvar", "in:live"))
        if path in ("std::result::Result::is_ok", "std::result::Result::is_err") and c.args:
            v = self.operand(p, c.args[0])
            if isinstance(v, tuple) and v and v[0] == "res":
                return done(p, v[1] if path.endswith("is_ok") else b_not(v[1]))
            return done(p)
        if path in ("std::option::Option::is_some", "std::option::Option::is_none") and c.args:
            v = self.operand(p, c.args[0])
            if isinstance(v, tuple) and v and v[0] == "opt" and is_bool(v[1]):
                return done(p, v[1] if path.endswith("is_some") else b_not(v[1]))
            return done(p)
        if path in TRANSPARENT or path in LOCK_ACQ or path.startswith("std::ops::Deref"):
            v = self.operand(p, c.args[0]) if c.args else TOP
            if path.endswith("::clone") and c.args:
                gs = self._gcells(b.operand_prov(c.args[0]))
                if gs and len(gs) == 1 and (self._alloc_kind(next(iter(gs))) or ("?",))[0] == "cont" and dl is not None:
                    ty = b.locals[dl]["ty"]
                    if norm(ty_adt(ty) or "") in ("std::vec::Vec", "std::collections::VecDeque"):
                        return done(p, ("bufcopy",))
            if isinstance(v, tuple) and v and v[0] in ("opt", "item", "front", "back", "bufcopy", "window", "int", "tuple", "captured",
                                                       "stored", "mapped", "error", "bvar", "bconst", "combined", "adt", "itemfield",
                                                       "boxed", "res", "cmp", "not", "and", "or", "elem"):
                if v[0] == "opt" and path in ("std::option::Option::unwrap", "std::option::Option::expect"):
                    return done(p, v[2])
                return done(p, v)
            return done(p)
        if (self.sink_param is not None or self.sink_upvar is not None) and path.startswith("std::iter::Iterator::"):
            for t in self.E.inline_targets(c):
                if self.E.may(t) & {"obs_next"}:
                    # closures of the adapter chain that poll the subscriber (take_while(|_| s.is_subscribed())) make the
                    # emission conditional on the subscription being live
                    polls = False
                    chain = [c]
                    seen_bb = set()
                    while chain:
                        k_ = chain.pop()
                        if k_.bb in seen_bb:
                            continue
                        seen_bb.add(k_.bb)
                        for t2 in self.E.inline_targets(k_):
                            if any(atom(x) == "is_subscribed" for x in t2.calls):
                                polls = True
                        if k_.args:
                            for pt in b.operand_prov(k_.args[0]):
                                if pt[0] == "ret":
                                    k2 = b.call_at(pt[1])
                                    if k2 is not None and k2.path.startswith("std::iter::"):
                                        chain.append(k2)
                    if polls:
                        q = p.fork()
                        p.pc.append(("bvar", "in:live"))
                        p.trace.append(("sink_next", "other"))
                        done(p)
                        q.pc.append(b_not(("bvar", "in:live")))
                        done(q)
                        return
                    p.trace.append(("sink_next", "other"))
                    return done(p)
        if path.startswith("std::iter::Iterator::") and c.args and self.sink_param is None and self.sink_upvar is None:
            emitting = [t_ for t_ in self.E.inline_targets(c) if self.E.may(t_) & {"sink_next"}
                        and not (self.E.may(t_) & {"sink_complete", "sink_complete_force", "sink_error"})]
            if emitting:
                # items handed downstream from inside an iterator consumer (flush by for_each / try_for_each): once per element
                gs = self._gcells(b.operand_prov(c.args[0])) or set()
                kinds = {(self._alloc_kind((g[0], g[1], g[2], ())) or ("?",))[0] for g in gs}
                kind = "elem" if kinds == {"cont"} else "other"
                polls = any(atom(x) == "is_subscribed" for t_ in emitting for x in t_.calls)
                if polls:
                    q = p.fork()
                    p.pc.append(("bvar", "in:live"))
                    p.trace.append(("sink_next", kind))
                    done(p)
                    q.pc.append(b_not(("bvar", "in:live")))
                    done(q)
                    return
                p.trace.append(("sink_next", kind))
                return done(p)
        # anything else: a crate-local call that may emit is outside the abstraction
        cb = self.E.callee_body(c)
        if cb is not None and "subscribe" in self.E.may(cb) and not (self.E.may(cb) & {"sink_next", "sink_complete", "sink_complete_force", "sink_error"}):
            p.trace.append(("resubscribe", norm(c.path).split("::")[-1]))
            return done(p)
        if cb is not None:
            may = self.E.may(cb)
            if may & {"sink_next", "sink_complete", "sink_complete_force", "sink_error", "abort", "finalize"}:
                p.note.append("call to %s (may emit) not summarised" % c.path)
                p.trace.append(("opaque", norm(c.path)))
        for t in self.E.inline_targets(c):
            if t is not cb and self.E.may(t) & {"sink_next", "sink_complete", "sink_complete_force", "sink_error", "abort", "finalize"}:
                p.note.append("closure passed to %s (may emit) not summarised" % c.path)
                p.trace.append(("opaque", norm(c.path)))
        return done(p)

    def _run(self):
        b = self.b
        start = Path()
        if b.argc >= self.item_param:
            start.env[self.item_param] = (self.item_kind,)
        if self.serial_param is not None and b.argc >= self.serial_param and self._is_intlike(b.locals[self.serial_param]["ty"]):
            start.env[self.serial_param] = INT("in:serial")
        work = [(start, 0)]
        steps = 0
        while work:
            p, bb = work.pop()
            steps += 1
            if steps > 20000:
                raise Undecided("path explosion in %s" % b.nid)
            p.visits[bb] = p.visits.get(bb, 0) + 1
            if p.visits[bb] > 2:
                p.note.append("loop at bb%d cut" % bb)
                p.trace.append(("loop",))
                self.paths.append(p)
                continue
            blk = b.blocks[bb]
            for s in blk["stmts"]:
                if s["k"] != "assign":
                    continue
                lhs = s["lhs"]
                lty = b.locals[lhs[0]]["ty"] if len(lhs) == 1 else None
                v = self.rvalue(p, s["rv"], lty)
                self._store(p, lhs, v, s.get("line"))
            t = blk["term"]
            k = t["k"]
            if k == "return":
                self.paths.append(p)
            elif k in ("goto", "drop", "falseedge", "falseunwind"):
                work.append((p, t["target"]))
            elif k == "assert":
                cond = self.operand(p, t["cond"])
                exp = bool(t.get("exp"))
                if is_bool(cond):
                    ok = cond if exp else b_not(cond)
                    if ok[0] == "bconst":
                        if ok[1]:
                            work.append((p, t["target"]))
                        else:
                            p.trace.append(("panic",))
                            self.paths.append(p)
                    else:
                        q = p.fork()
                        p.pc.append(ok)
                        work.append((p, t["target"]))
                        q.pc.append(b_not(ok))
                        q.trace.append(("panic",))
                        self.paths.append(q)
                else:
                    work.append((p, t["target"]))
            elif k == "switch":
                d = self.operand(p, t["discr"])
                targets = t["targets"]
                other = t["otherwise"]
                if isinstance(d, tuple) and d and d[0] == "vdisc":
                    taken = []
                    for v_, bbx in targets:
                        q = p.fork()
                        q.pc.append(("veq", d[1], v_))
                        taken.append(v_)
                        work.append((q, bbx))
                    rest_vals = [i for i in range(len(d[2])) if i not in taken]
                    if rest_vals:
                        q = p.fork()
                        q.pc.append(("vin", d[1], tuple(rest_vals)))
                        work.append((q, other))
                    continue
                if isinstance(d, tuple) and d and d[0] == "orddisc":
                    a_, c_ = d[1], d[2]
                    arms = {}
                    for v_, bbx in targets:
                        arms["Eq" if v_ == 0 else ("Gt" if v_ == 1 else "Lt")] = bbx
                    for opn in ("Lt", "Eq", "Gt"):
                        q = p.fork()
                        q.pc.append(("cmp", opn, a_, c_))
                        work.append((q, arms.get(opn, other)))
                    continue
                if isinstance(d, tuple) and d and d[0] == "disc":
                    d = d[1]
                    if d == TOP:
                        d = None
                if d is not None and is_bool(d):
                    if d[0] == "bconst":
                        val = 1 if d[1] else 0
                        nxt = [bbx for v_, bbx in targets if v_ == val]
                        work.append((p, nxt[0] if nxt else other))
                        continue
                    f_t = [bbx for v_, bbx in targets if v_ == 0]
                    t_t = [bbx for v_, bbx in targets if v_ == 1]
                    false_bb = f_t[0] if f_t else other
                    true_bb = t_t[0] if t_t else other
                    q = p.fork()
                    p.pc.append(d)
                    work.append((p, true_bb))
                    q.pc.append(b_not(d))
                    work.append((q, false_bb))
                elif d is not None and is_int(d):
                    rest = p
                    for v_, bbx in targets:
                        q = rest.fork()
                        q.pc.append(("cmp", "Eq", d, INT(None, v_)))
                        work.append((q, bbx))
                        rest.pc.append(("cmp", "Ne", d, INT(None, v_)))
                    work.append((rest, other))
                else:
                    # uncontrolled branch (is_subscribed(), a payload test): both ways
                    for bbx in sorted({bbx for _, bbx in targets} | {other}):
                        work.append((p.fork(), bbx))
            elif k == "call":
                c = b.call_at(bb)
                if c is None or c.target is None:
                    # diverging call (panic!, unwrap_failed): the path ends in a panic
                    if c is not None:
                        p.trace.append(("panic",))
                        self.paths.append(p)
                    continue
                out = []
                self._call(p, c, out)
                work.extend(out)
            elif k == "unreachable":
                continue
            else:
                work.append((p, t.get("target"))) if t.get("target") is not None else self.paths.append(p)

    # -- exploration
    def symbols(self):
        syms = set()

        def walk_i(v):
            if is_int(v) and v[1] is not None:
                syms.add(v[1])

        def walk_b(e):
            if e[0] in ("bvar", "veq", "vin"):
                syms.add(e[1])
            elif e[0] == "cmp":
                walk_i(e[2]), walk_i(e[3])
            elif e[0] == "not":
                walk_b(e[1])
            elif e[0] in ("and", "or"):
                walk_b(e[1]), walk_b(e[2])
        for p in self.paths:
            for e in p.pc:
                walk_b(e)
            for v in p.cells.values():
                if is_bool(v):
                    walk_b(v)
                else:
                    walk_i(v)
        return syms

    def max_const(self):
        acc = {0}
        for p in self.paths:
            for e in p.pc:
                consts_of(e, acc)
        return max(acc)

    def step(self, sigma, proj):
        """feasible transitions under the concrete valuation sigma: set of (projected trace, next cells)"""
        res = {}
        sigma = dict(sigma)
        sigma.setdefault("in:live", True)
        for p in self.paths:
            try:
                if not all(ev_bool(e, sigma) for e in p.pc):
                    continue
            except KeyError as e:
                raise Undecided("guard mentions an unmodelled quantity %s" % e)
            tr = tuple(x for x in p.trace if x[0] in proj)
            nxt = {}
            for g, v in p.cells.items():
                if is_bool(v):
                    nxt[g] = ev_bool(v, sigma)
                elif is_int(v):
                    nxt[g] = ev_int(v, sigma)
                else:
                    raise Undecided("state update not representable (%s)" % "; ".join(str(x) for x in p.note or ["?"]))
            res[(tr, tuple(sorted((self.cellsym(g), v) for g, v in nxt.items())))] = (p, nxt)
        return res


# ---- operator tables ------------------------------------------------------------------------
ALPHABET = {"user_fn", "remember", "combine", "reversed", "subscribe", "sub_unsubscribe", "resubscribe", "map_insert", "set_flag", "sink_next", "sink_complete", "sink_complete_force", "sink_error", "abort", "finalize", "push_back", "push_front",
            "pop_front", "pop_back", "clear", "take_all", "window_next", "window_complete", "window_error", "store",
            "panic", "loop", "opaque", "cont_replace", "cont_truncate", "cont_drain", "cont_retain", "cont_remove",
            "cont_insert", "cont_append", "cont_extend", "cont_split_off", "cont_resize", "cont_swap_remove"}


def _emits(tr, kind=None):
    return [x for x in tr if x[0] == "sink_next" and (kind is None or x[1] == kind)]


def _completes(tr):
    return [x for x in tr if x[0] in ("sink_complete", "sink_complete_force")]


def spec_take(k, count, tr, qlen_before, qlen_after):
    want_emit = k <= count
    want_done = k >= count
    errs = []
    if bool(_emits(tr)) != want_emit or len(_emits(tr)) > 1 or (want_emit and not _emits(tr, "item")):
        errs.append("item %d of take(%d): %s, expected %s" % (k, count, "emitted" if _emits(tr) else "dropped", "emitted" if want_emit else "dropped"))
    if bool(_completes(tr)) != want_done:
        errs.append("item %d of take(%d): %s, expected %s" % (k, count, "completes" if _completes(tr) else "does not complete",
                                                             "completion" if want_done else "no completion"))
    if want_done and _completes(tr) and _emits(tr) and tr.index(_emits(tr)[0]) > tr.index(_completes(tr)[0]):
        errs.append("item %d of take(%d): completion before the item" % (k, count))
    return errs, want_done


def spec_skip(k, count, tr, qb, qa):
    want = k > count
    errs = []
    if bool(_emits(tr)) != want or len(_emits(tr)) > 1 or (want and not _emits(tr, "item")):
        errs.append("item %d of skip(%d): %s, expected %s" % (k, count, "emitted" if _emits(tr) else "dropped", "emitted" if want else "dropped"))
    if _completes(tr):
        errs.append("item %d of skip(%d): completes" % (k, count))
    return errs, False


def _fifo(tr):
    pb = any(x[0] == "push_back" for x in tr)
    pf = any(x[0] == "push_front" for x in tr)
    return pb, pf


def spec_skip_last(k, count, tr, qb, qa):
    want = k > count
    errs = []
    em = _emits(tr)
    if bool(em) != want or len(em) > 1:
        errs.append("item %d of skip_last(%d): %s, expected %s" % (k, count, "emits" if em else "emits nothing", "the item %d places back" % count if want else "nothing"))
    pb, pf = _fifo(tr)
    if em:
        ok = (pb and em[0][1] == "front") or (pf and em[0][1] == "back") or (count == 0 and em[0][1] == "item")
        if not ok:
            errs.append("item %d of skip_last(%d): hands on `%s`, not the oldest queued item" % (k, count, em[0][1]))
    if qa is not None and qa != min(k, count):
        errs.append("item %d of skip_last(%d): %d item(s) held back, expected %d" % (k, count, qa, min(k, count)))
    if _completes(tr):
        errs.append("item %d of skip_last(%d): completes" % (k, count))
    return errs, False


def spec_take_last(k, count, tr, qb, qa):
    errs = []
    if _emits(tr) or _completes(tr):
        errs.append("item %d of take_last(%d): emits/completes before the source completed" % (k, count))
    if qa is not None and qa != min(k, count):
        errs.append("item %d of take_last(%d): %d item(s) kept, expected %d" % (k, count, qa, min(k, count)))
    pb, pf = _fifo(tr)
    pops = [x[0] for x in tr if x[0] in ("pop_front", "pop_back")]
    if pops and not ((pb and pops == ["pop_front"]) or (pf and pops == ["pop_back"])):
        errs.append("item %d of take_last(%d): drops %s, not the oldest kept item" % (k, count, pops))
    return errs, False


def spec_buffer(k, count, tr, qb, qa):
    errs = []
    want = (k % count == 0)
    em = _emits(tr)
    if bool(em) != want or len(em) > 1:
        errs.append("item %d of buffer_with_count(%d): %s, expected %s" % (k, count, "emits a buffer" if em else "emits nothing", "a full buffer" if want else "nothing"))
    if em and em[0][1] != "bufcopy":
        errs.append("item %d of buffer_with_count(%d): hands on `%s`, not the buffer" % (k, count, em[0][1]))
    if qa is not None and qa != k % count:
        errs.append("item %d of buffer_with_count(%d): %d item(s) buffered afterwards, expected %d" % (k, count, qa, k % count))
    if _completes(tr):
        errs.append("item %d of buffer_with_count(%d): completes" % (k, count))
    return errs, False


def spec_window(k, count, tr, qb, qa):
    errs = []
    opens = (k - 1) % count == 0
    closes = k % count == 0
    em = _emits(tr)
    if bool(em) != opens or len(em) > 1 or (em and em[0][1] != "window"):
        errs.append("item %d of window_with_count(%d): %s, expected %s" % (k, count, "opens a window" if em else "opens no window", "a new window" if opens else "none"))
    nx = [x for x in tr if x[0] == "window_next"]
    if len(nx) != 1 or nx[0][1] != "item":
        errs.append("item %d of window_with_count(%d): item not forwarded to the window exactly once" % (k, count))
    cl = [x for x in tr if x[0] == "window_complete"]
    if bool(cl) != closes:
        errs.append("item %d of window_with_count(%d): window %s, expected %s" % (k, count, "closed" if cl else "left open", "closed" if closes else "open"))
    if em and nx and tr.index(em[0]) > tr.index(nx[0]):
        errs.append("item %d of window_with_count(%d): item sent before its window was handed downstream" % (k, count))
    if cl and nx and tr.index(cl[0]) < tr.index(nx[0]):
        errs.append("item %d of window_with_count(%d): window closed before its last item" % (k, count))
    if closes and cl and not any(x[0] == "store" for x in tr[tr.index(cl[0]):]):
        errs.append("item %d of window_with_count(%d): closed window not replaced by a fresh one" % (k, count))
    if _completes(tr):
        errs.append("item %d of window_with_count(%d): completes" % (k, count))
    return errs, False


OPERATORS = {
    # type root -> (name, spec, smallest valid count, reason for that domain)
    "operators::take::Take": ("take", spec_take, 0),
    "operators::skip::Skip": ("skip", spec_skip, 0),
    "operators::skip_last::SkipLast": ("skip_last", spec_skip_last, 0),
    "operators::take_last::TakeLast": ("take_last", spec_take_last, 0),
    "operators::buffer_with_count::BufferWithCount": ("buffer_with_count", spec_buffer, 1),
    "operators::window_with_count::WindowWithCount": ("window_with_count", spec_window, 1),
}


def _end_trace(tr):
    out = []
    for x in tr:
        if x[0] == "sink_next":
            out.append("emit(%s)" % x[1])
        elif x[0] in ("sink_complete", "sink_complete_force"):
            out.append("complete")
        elif x[0] == "sink_error":
            out.append("error")
        elif x[0] in ("window_complete", "window_error", "loop", "panic", "opaque", "reversed", "pop_front", "pop_back", "clear", "take_all"):
            out.append(x[0])
    return out


def end_spec(name, role, qlen, tr):
    """what the operator does when the source ends after the items seen so far"""
    t = [x for x in _end_trace(tr) if x not in ("clear", "take_all")]
    if role == "E":
        want = ["window_error", "error"] if name == "window_with_count" else ["error"]
        return None if t == want else "does %s, expected %s" % (t, want)
    if name in ("take", "skip", "skip_last"):
        return None if t == ["complete"] else "does %s, expected ['complete']" % t
    if name == "window_with_count":
        return None if t == ["window_complete", "complete"] else "does %s, expected ['window_complete', 'complete']" % t
    if name == "buffer_with_count":
        want = (["emit(bufcopy)"] if qlen and qlen > 0 else []) + ["complete"]
        return None if t == want else "does %s with %s item(s) buffered, expected %s" % (t, qlen, want)
    if name == "take_last":
        # flush the kept items oldest first, then complete (the loop is cut after two rounds: a cut path ends in `loop`)
        if "reversed" in t or "pop_back" in t:
            return "flushes the kept items newest first"
        body = [x for x in t if x not in ("pop_front",)]
        cut = body and body[-1] == "loop"
        core = body[:-1] if cut else body
        if not cut and (not core or core[-1] != "complete"):
            return "does %s, expected the kept items then 'complete'" % t
        items = core if cut else core[:-1]
        if any(x != "emit(elem)" for x in items):
            return "does %s, expected only the kept items before 'complete'" % t
        return None
    return None


def count_rule(P, E, H):
    r = RuleResult("COUNT", "counting operators: for every count and every item index, the item handler's extracted "
                            "guarded transitions emit / hold back / complete exactly as the operator's definition says")
    found = set()
    for t in H.triples:
        root = t["root"]
        if root not in OPERATORS:
            continue
        hb = t["handlers"].get("N")
        if hb is None:
            r.error("COUNT: %s has no item handler" % root)
            continue
        name, spec, cmin = OPERATORS[root]
        found.add(root)
        if name in ("take", "skip", "skip_last", "buffer_with_count", "window_with_count") and "sink_next" not in E.may(hb):
            # a streaming operator whose item handler can never emit holds everything back until the source terminates: a source that
            # errors or stays silent (both in C02's quantifier) then loses the items the definition hands on as they arrive
            r.instance((root, "counting"), True, "%s: item handler has no emission" % name)
            r.violate((root, "counting", "item handler never emits"),
                      "%s: no path of the item handler reaches sink_next: the items its definition passes on while the source is still running are "
                      "delivered only at completion (never, for a source that errors or stays silent)" % name, body=hb)
            continue
        try:
            S = Summary(P, E, hb)
            ends = {}
            for role, kind in (("C", "none"), ("E", "error")):
                if t["handlers"].get(role) is None:
                    raise Undecided("no %s handler" % role)
                ends[role] = Summary(P, E, t["handlers"][role], item_kind=kind)
            _check_operator(r, P, S, root, name, spec, cmin, hb, ends)
        except Undecided as e:
            r.error("COUNT: %s not decidable in the affine/ordering abstraction: %s" % (name, e))
    for root in OPERATORS:
        if root not in found:
            r.error("COUNT: anchor missing: item handler of %s" % root)
    return r


def _check_operator(r, P, S, root, name, spec, cmin, hb, ends=None):
    bounds = sorted(set(S.bounds.values()))
    if not bounds and ends:
        # the item handler never looks at the count (a batch rewrite that only buffers): the count is what the terminal handlers compare with
        bounds = sorted({v for e_ in ends.values() for v in e_.bounds.values()})
    ints = [g for g, k in S.cellinfo.items() if k and k[0] == "int" and any(g in p.cells or S._sym(g) in str(p.pc) for p in S.paths)]
    conts = [g for g, k in S.cellinfo.items() if k and k[0] == "cont"]
    if len(bounds) != 1:
        raise Undecided("expected exactly one captured parameter compared against, found %d" % len(bounds))
    M = S.max_const()
    if M + 2 > COUNT_MAX:
        raise Undecided("comparison constants up to %d exceed the explored box" % M)
    bsym = bounds[0]
    nviol = 0
    reported = set()
    steps = 0
    for count in range(cmin, COUNT_MAX + 1):
        state = {}
        for g in ints:
            iv = S.cellinfo[g][1]
            state[S._sym(g)] = count if isinstance(iv, tuple) else iv
        for g in conts:
            state["len:" + S._sym(g)] = 0
        for k in range(1, K_MAX + 1):
            sigma = dict(state)
            sigma[bsym] = count
            sigma["in:live"] = True
            # the source may end here, after k-1 items
            for role, SE in sorted((ends or {}).items()):
                for s_ in SE.symbols():
                    if s_ not in sigma:
                        raise Undecided("%s-handler consults `%s`, which the abstraction does not model" % (role, s_))
                eouts = SE.step(sigma, ALPHABET)
                steps += 1
                if not eouts:
                    raise Undecided("no feasible %s path after %d items, count %d" % (role, k - 1, count))
                ql = state.get("len:" + S._sym(conts[0])) if conts else None
                saw_flush = False
                for (tr_, nx_), (p_, cells_) in eouts.items():
                    why = end_spec(name, role, ql, tr_)
                    saw_flush = saw_flush or any(x[0] == "sink_next" for x in tr_)
                    if why:
                        kind = "source %s: %s" % ({"C": "completes", "E": "fails"}[role], re.sub(r"\d+", "N", why))
                        if kind not in reported:
                            reported.add(kind)
                            r.violate((root, "counting", kind), "%s(%d) when the source %s after %d item(s): %s"
                                      % (name, count, {"C": "completes", "E": "fails"}[role], k - 1, why), body=SE.b)
                if name == "take_last" and role == "C" and ql and not saw_flush:
                    kind = "source completes: kept items not flushed"
                    if kind not in reported:
                        reported.add(kind)
                        r.violate((root, "counting", kind), "take_last(%d): %d item(s) are kept but no path of the completion handler "
                                  "hands them on" % (count, ql), body=SE.b)
            outs = S.step(sigma, ALPHABET)
            steps += 1
            if not outs:
                raise Undecided("no feasible path for item %d, count %d" % (k, count))
            done_any = False
            nxt_state = None
            for (tr, nx), (p, cells) in sorted(outs.items(), key=lambda kv: str(kv[0])):
                qa = None
                if conts:
                    g0 = conts[0]
                    qa = cells.get(g0, state["len:" + S._sym(g0)])
                bad = [x for x in tr if x[0] in ("panic", "loop", "opaque") or x[0].startswith("cont_")]
                errs, done = spec(k, count, tr, None, qa)
                for x in bad:
                    errs.append("item %d of %s(%d): %s" % (k, name, count, {"panic": "panics (arithmetic underflow / explicit panic)",
                                                                          "loop": "loops", "opaque": "calls an emitting function the abstraction cannot see"}.get(x[0], x[0])))
                for e in errs:
                    # one report per kind of deviation: strip the numbers for the key
                    kind = re.sub(r"\d+", "N", e)
                    if kind in reported:
                        continue
                    reported.add(kind)
                    r.violate((root, "counting", kind.split(": ", 1)[1] if ": " in kind else kind),
                              "%s (extracted transition: guard %s, effects %s)" %
                              (e, " && ".join(_show_b(x) for x in p.pc) or "true", [x[0] if len(x) == 1 else "%s(%s)" % x for x in tr]),
                              body=hb)
                    nviol += 1
                done_any = done_any or done
                ns = dict(state)
                for g in ints:
                    if g in cells:
                        ns[S._sym(g)] = cells[g]
                for g in conts:
                    if g in cells:
                        ns["len:" + S._sym(g)] = cells[g]
                if nxt_state is None:
                    nxt_state = ns
                elif nxt_state != ns:
                    raise Undecided("item %d, count %d: branches the abstraction cannot tell apart lead to different states" % (k, count))
            if done_any:
                break
            state = nxt_state
    r.instance((root, "counting"), True, "%s: %d paths, %d guarded steps explored (count %d..%d, items 1..%d), state cells %d, containers %d, max constant %d"
               % (name, len(S.paths), steps, cmin, COUNT_MAX, K_MAX, len(ints), len(conts), M))


def _show_i(v):
    if v[1] is None:
        return str(v[2])
    s = v[1].split("|")
    if v[1].startswith("in:"):
        nm = v[1][3:]
    elif v[1].startswith("ov:"):
        nm = "stored"
    else:
        nm = "len" if v[1].startswith("len:") else ("count" if len(s) > 1 and s[1] in ("param", "upvar") else "n")
    return nm if v[2] == 0 else "%s%+d" % (nm, v[2])


def _show_b(e):
    if e[0] in ("veq", "vin"):
        return "variant %s %s" % ("==" if e[0] == "veq" else "in", e[2])
    if e[0] == "bvar":
        return e[1].split("|")[0].replace("in:", "").split(":")[0] if e[1].startswith("in:") else ("flag" if e[1].startswith("f:") else "has_value")
    if e[0] == "bconst":
        return str(e[1]).lower()
    if e[0] == "not":
        return "!(%s)" % _show_b(e[1])
    if e[0] in ("and", "or"):
        return "(%s %s %s)" % (_show_b(e[1]), "&&" if e[0] == "and" else "||", _show_b(e[2]))
    return "%s %s %s" % (_show_i(e[2]), {"Lt": "<", "Le": "<=", "Gt": ">", "Ge": ">=", "Eq": "==", "Ne": "!="}[e[1]], _show_i(e[3]))


def field_init(P, E, adt, field):
    """initial contents of a lock-typed field of `adt`, read off the aggregate its constructor builds:
    ("flag", bool) / ("int", n) / ("optcell", present, payload) / ("cont", ..) / None when it cannot be read"""
    S = Summary.__new__(Summary)
    S.P, S.E, S.cellinfo, S.bounds = P, E, {}, {}
    try:
        return S._field_kind(adt, field)
    except Exception:
        return None
