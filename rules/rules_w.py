"""to_vec future rules W1-W5 (DESIGN 6 C18): premises of the no-lost-wake-up argument."""
from core import RuleResult
from effects import *

TOVEC = "operators::to_vec::ToVec"
POLL = "<operators::to_vec::ToVec as std::future::Future>::poll"


def _cell_hits(P, b, prov, field):
    for t in prov:
        for g in P.global_cell(b, t, through_helpers="add"):
            if field in g[3]:
                return True
    return False


def _acqs(P, b, field):
    acqs, held, sh = b.guards()
    return {bb: a for bb, a in acqs.items() if _cell_hits(P, b, a["cell"], field)}, held, sh


CALL_J = 1 << 20        # statement index of a store made by the block's terminator call


def _stores(P, b, field):
    """[(bb, idx, valuekind)] of stores through a guard of `field`; valuekind: 'true'/'false'/
    'Some'/'None'/'?'"""
    out = []
    for i in sorted(b.reach):
        for j, s in enumerate(b.blocks[i]["stmts"]):
            if s["k"] == "assign" and len(s["lhs"]) > 1 and "*" in s["lhs"] and _cell_hits(P, b, b.place_prov(s["lhs"]), field):
                rv = s["rv"]
                kind = "?"
                if rv["k"] == "use" and rv["op"]["k"] == "const":
                    kind = rv["op"].get("s")
                elif rv["k"] == "use" and rv["op"]["k"] in ("move", "copy"):
                    for t in b.operand_prov(rv["op"]):
                        if t[0] == "agg":
                            st = b.blocks[t[1][0]]["stmts"][t[1][1]]["rv"]
                            kind = st.get("variant", "?")
                elif rv["k"] == "agg":
                    kind = rv.get("variant", "?")
                out.append((i, j, kind))
    # the same store spelled as a method of the slot's Option: replace/insert put Some(..), take puts None
    for c in b.calls:
        k = {"std::option::Option::replace": "Some", "std::option::Option::insert": "Some",
             "std::option::Option::get_or_insert": "Some", "std::option::Option::take": "None"}.get(c.path)
        if k and c.args and _cell_hits(P, b, b.operand_prov(c.args[0]), field):
            out.append((c.bb, CALL_J, k))
    return out


def w_rules(P, E):
    r = RuleResult("W", "to_vec: poll holds the waker write guard across the done test and the waker store; "
                        "terminals store err, then done, then read the waker (W1-W5)")
    poll = P.body(POLL)
    start = None
    for b in P.bodies.values():     # the public entry point; private helpers (ToVec::start) are inlined into it
        if b.kind == "assoc" and b.name == "to_vec" and b.id not in P.absorbed and b.nid.startswith("operators::to_vec::"):
            start = b
    if poll is None:
        r.error("anchor missing: <ToVec as Future>::poll")
    if start is None:
        r.error("anchor missing: Observable::to_vec")
    if r.errors:
        return r
    subs = [c for c in start.calls if atom(c) == "subscribe"]
    if len(subs) != 1:
        r.error("to_vec: expected one subscribe, found %d" % len(subs))
        return r
    hN, hE, hC = (P.bodies.get(subs[0].arg_closure(i)) for i in (1, 2, 3))
    if not (hN and hE and hC):
        r.error("to_vec: subscribe callbacks are not closures")
        return r

    # ---- W1
    aw, held, sh = _acqs(P, poll, "waker")
    ad, _, _ = _acqs(P, poll, "done")
    r.instance(("W1", poll.nid), True, "waker acqs %s done acqs %s" % ({k: v["mode"] for k, v in aw.items()}, list(ad)))
    if len(aw) != 1 or list(aw.values())[0]["mode"] not in ("W", "M"):
        r.violate(("W1", poll.nid, "waker not held by one write guard"),
                  "poll does not take exactly one write guard of `waker` (found %s): the done test and the waker store are "
                  "not one critical section, a terminal in between is lost" % [v["mode"] for v in aw.values()], body=poll)
    else:
        a0 = list(aw)[0]
        if not ad:
            r.error("W1: read of `done` not found in poll")
        for bb in ad:
            if a0 not in held.get(bb, set()):
                r.violate(("W1", poll.nid, "done read outside the waker guard"),
                          "`done` is read before/without the waker write guard: the terminal can set done and read an empty "
                          "waker slot between poll's test and its store (lost wake-up)", body=poll, line=ad[bb]["line"])
        ws = _stores(P, poll, "waker")
        if not any(k == "Some" for (_, _, k) in ws):
            r.violate(("W1", poll.nid, "waker never stored"), "poll does not store the waker when pending", body=poll)
        for (i, j, k) in ws:
            hs = held.get(i, set()) if j >= CALL_J else (sh[i][j] if i in sh and j < len(sh[i]) else set())
            if a0 not in hs:
                r.violate(("W1", poll.nid, "waker stored outside the guard"), "the waker store is not under the write guard "
                          "that was held at the done test", body=poll)

    # ---- W4: Ready only on done == true; done never reset; buffer pushed only in N
    dom = poll.dominators()
    done_sw = None
    for i in sorted(poll.reach):
        t = poll.blocks[i]["term"]
        if t["k"] == "switch" and t["discr"]["k"] in ("copy", "move") and _cell_hits(P, poll, poll.operand_prov(t["discr"]), "done"):
            done_sw = (i, t)
    if done_sw is None:
        r.error("W4: branch on `done` not found in poll")
    else:
        i, t = done_sw
        false_t = [x for v, x in t["targets"] if v == 0]
        true_t = t["otherwise"]
        for bb in sorted(poll.reach):
            for s in poll.blocks[bb]["stmts"]:
                if s["k"] == "assign" and s["rv"]["k"] == "agg" and norm(s["rv"].get("def", "")) == "std::task::Poll":
                    v = s["rv"]["variant"]
                    r.instance(("W4", poll.nid, v), True, "Poll::%s built in bb%d" % (v, bb))
                    if v == "Ready" and not (true_t in dom[bb] and poll.pred[true_t] == [i]):
                        r.violate(("W4", poll.nid, "Ready without done"), "poll can return Ready on a path where `done` was not true", body=poll)
                    if v == "Pending" and false_t and not (false_t[0] in dom[bb]):
                        r.violate(("W4", poll.nid, "Pending although done"), "poll can return Pending although `done` is true", body=poll)
    # ---- W8: a Pending poll registers the CURRENT waker: from the not-done edge every path to the return stores Some(waker)
    # into the slot - except past the true edge of `stored.will_wake(cx.waker())` (the stored waker already wakes this task)
    if done_sw is not None:
        i, t = done_sw
        false_t = [bb for v, bb in t["targets"] if v == 0]
        some_stores = {bi for (bi, bj, k) in _stores(P, poll, "waker") if k == "Some"}
        for c in poll.calls:
            if c.path in ("std::option::Option::replace", "std::option::Option::insert", "std::option::Option::get_or_insert") and c.args and \
                    _cell_hits(P, poll, poll.operand_prov(c.args[0]), "waker"):
                some_stores.add(c.bb)
        same_waker_edges = set()
        for tb in sorted(poll.reach):
            tt = poll.blocks[tb]["term"]
            if tt["k"] != "switch" or tt["discr"]["k"] not in ("copy", "move"):
                continue
            zero_t = [x for v_, x in tt["targets"] if v_ == 0]
            for pt in poll.operand_prov(tt["discr"]):
                if pt[0] == "ret":
                    k = poll.call_at(pt[1])
                    if k is not None and k.path.endswith("Waker::will_wake"):
                        same_waker_edges.add((tb, tt["otherwise"]))
                elif pt[0] == "val":
                    rv = poll.blocks[pt[1][0]]["stmts"][pt[1][1]]["rv"]
                    if rv.get("k") == "unop" and rv.get("op") == "Not":
                        for p2 in poll.operand_prov(rv.get("a") or {"k": "const"}):
                            k = poll.call_at(p2[1]) if p2[0] == "ret" else None
                            if k is not None and k.path.endswith("Waker::will_wake") and zero_t:
                                same_waker_edges.add((tb, zero_t[0]))      # !will_wake == false  <=>  will_wake
        if false_t and some_stores:
            seen_, work_ = {false_t[0]}, [false_t[0]]
            leak = False
            while work_:
                x = work_.pop()
                if x in poll.returns:
                    leak = True
                    break
                for y in poll.succ.get(x, []):
                    if y in some_stores or (x, y) in same_waker_edges or y in seen_:
                        continue
                    seen_.add(y)
                    work_.append(y)
            r.instance(("W8", poll.nid), True, "waker stores at %s, will_wake edges %s" % (sorted(some_stores), sorted(same_waker_edges)))
            if leak:
                r.violate(("W8", poll.nid, "pending poll may keep a stale waker"),
                          "a poll that finds the source still running can return Pending without storing the waker of THIS poll (and "
                          "without having found that the stored waker wakes the same task): a future re-polled from another task is "
                          "never woken", body=poll)
    for b in P.bodies.values():
        if not b.nid.startswith("operators::to_vec::") and not b.nid.startswith("<operators::to_vec::"):
            continue
        for (i, j, k) in _stores(P, b, "done"):
            r.instance(("W4", b.nid, "done store"), True, "stores %s" % k)
            if k != "true":
                r.violate(("W4", b.nid, "done reset"), "`done` is stored with %s" % k, body=b)
        for c in b.calls:
            if c.path in ("std::vec::Vec::push", "std::vec::Vec::clear", "std::vec::Vec::pop") and _cell_hits(P, b, b.operand_prov(c.args[0]), "buffer"):
                r.instance(("W4", b.nid, c.name), True, None)
                if b.id != hN.id or c.name != "push":
                    r.violate(("W4", b.nid, "buffer mutated outside the next callback"), "buffer.%s outside the next callback" % c.name, body=b, line=c.line)

    # ---- W7: who may write the waker slot: poll only (terminals and everything else only read it)
    for b in P.bodies.values():
        if b.id in P.absorbed:
            continue
        if not b.nid.startswith("operators::to_vec::") and not b.nid.startswith("<operators::to_vec::"):
            continue
        awx, _, _ = _acqs(P, b, "waker")
        for bb, a in sorted(awx.items()):
            r.instance(("W7", b.nid, a["mode"]), True, "waker acquired in mode %s" % a["mode"])
            if a["mode"] in ("W", "M") and b.id != poll.id:
                r.violate(("W7", b.nid, "waker slot written outside poll"),
                          "the waker slot is acquired exclusively outside poll (%s): a stored waker can be replaced or emptied "
                          "behind a pending handle's back and its wake-up is lost" % b.nid, body=b, line=a["line"])

    # ---- W2 / W3 / W5 in the terminal closures
    for (role, hb) in (("error", hE), ("complete", hC)):
        ds = _stores(P, hb, "done")
        aw2, held2, sh2 = _acqs(P, hb, "waker")
        ad2, _, _ = _acqs(P, hb, "done")
        ae2, _, _ = _acqs(P, hb, "err")
        wakes = [c for c in hb.calls if c.path == "std::task::Waker::wake" or c.path == "std::task::Waker::wake_by_ref"]
        r.instance(("W2", hb.nid, role), True, "done stores %s, waker reads %s, wakes %s" % (ds, list(aw2), [c.bb for c in wakes]))
        if not [x for x in ds if x[2] == "true"]:
            r.violate(("W2", hb.nid, "%s callback does not set done" % role), "the terminal callback never sets `done`: the future never resolves", body=hb)
            continue
        if not aw2 or not wakes:
            r.violate(("W2", hb.nid, "%s callback does not wake" % role), "the terminal callback does not read the waker and wake it", body=hb)
            continue
        dblocks = [i for (i, j, k) in ds if k == "true"]
        for bb in list(aw2) + [c.bb for c in wakes]:
            if Effects.path_avoiding(hb, [bb], dblocks) is not None and bb not in dblocks:
                r.violate(("W2", hb.nid, "waker read before done is set"),
                          "the %s callback can read/wake the waker before it stores done=true: poll then sees done==false, "
                          "stores its waker after the terminal looked, and is never woken" % role, body=hb)
                break
        # the done store must come strictly before the waker acquisition in the same block too
        for bb in aw2:
            if bb in dblocks:
                pass  # acquisitions are block terminators; statements of the block precede them
        # W6: the terminal must *wait* for the waker slot (poll holds it across test+store): a try-lock skips the wake
        for bb, a in aw2.items():
            if "try_" in a["call"].path:
                r.violate(("W6", hb.nid, "%s callback try-locks the waker" % role),
                          "the terminal callback reads the waker with %s: while poll() holds the slot (between its done test and "
                          "its waker store) the try-lock fails, the wake is skipped and the future never resolves"
                          % a["call"].path.split("::")[-1], body=hb, line=a["line"])
        # W5
        for bb in aw2:
            if held2.get(bb, set()) & (set(ad2) | set(ae2)):
                r.violate(("W5", hb.nid, "waker acquired under done/err"), "lock order: waker must not be taken while done/err is held", body=hb)
        if role == "error":
            es = _stores(P, hb, "err")
            r.instance(("W3", hb.nid), True, "err stores %s" % es)
            if not [x for x in es if x[2] == "Some"]:
                r.violate(("W3", hb.nid, "error not recorded"), "the error callback does not store the error", body=hb)
            else:
                eblocks = [i for (i, j, k) in es if k == "Some"]
                for bb in dblocks:
                    if bb in eblocks:
                        # same block: order of statements
                        ei = min(j for (i, j, k) in es if i == bb and k == "Some")
                        di = min(j for (i, j, k) in ds if i == bb and k == "true")
                        if di < ei:
                            r.violate(("W3", hb.nid, "done before err"), "done is set before err is stored: poll can resolve Ok on an error", body=hb)
                    elif Effects.path_avoiding(hb, [bb], eblocks) is not None:
                        r.violate(("W3", hb.nid, "done before err"), "done is set before err is stored: poll can resolve Ok on an error", body=hb)
    return r
