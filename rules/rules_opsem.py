"""OPSEM: control-level operational semantics of the stateful / predicate-driven single-source
operators of C02, decided by lock-step exploration of two transition systems:

  * the implementation's, extracted from the MIR of the operator's three handlers by the symbolic
    path summariser of rules_count.Summary (guards over flags / option cells / counters / the
    outcome of the user predicate or of `==`, effect traces, state updates), and
  * the operator's ReactiveX definition written as a small reference machine below.

From the initial states (read off the allocation sites) every sequence of inputs up to DEPTH items is
explored - an input is the outcome of the user's predicate and/or of the equality test, the only
things these handlers ever ask about an item - and after every prefix the source may complete or
fail.  At each step the implementation's emissions and terminal (what is handed on: the handler's own
item, a stored item, the captured default, a constant, the counter) must equal the reference's.
The product state space is finite (booleans, presence bits and a counter bounded by DEPTH), so the
exploration is exhaustive for that depth; nothing is executed.
Not decided: what `map`/`scan`/`reduce` compute from the values (the user function is opaque)."""
from itertools import product
from core import RuleResult
from effects import *
from rules_count import Summary, Undecided, ALPHABET, is_int, is_bool, _show_b

DEPTH = 5


def _norm_trace(tr, extra=()):
    out = []
    for x in tr:
        if x[0] in extra:
            out.append(x)
        elif x[0] == "sink_next":
            out.append(("emit", x[1]))
        elif x[0] in ("sink_complete", "sink_complete_force"):
            out.append(("complete",))
        elif x[0] == "sink_error":
            out.append(("error",))
        elif x[0] in ("panic", "loop", "opaque"):
            out.append(x)
    return tuple(out)


def _fmt(tr):
    return "[" + ", ".join(x[0] if len(x) == 1 else "%s(%s)" % (x[0], x[1]) for x in tr) + "]"


# ---- reference machines: next(state, inp) -> (trace, state', done) ; complete(state) ; error(state)
class Ref:
    init = None
    inputs = ()          # names of boolean inputs consulted ("pred", "eq")
    extra = ()           # further effects that belong to the definition ("remember", "user_fn")

    def next(self, st, inp):
        raise NotImplementedError

    def complete(self, st):
        return (("complete",),)

    def error(self, st):
        return (("error",),)


class RefFilter(Ref):
    init = ()
    inputs = ("pred",)

    def next(self, st, inp):
        return ((("emit", "item"),) if inp["pred"] else ()), st, False


class RefTakeWhile(Ref):
    init = ()
    inputs = ("pred",)

    def next(self, st, inp):
        if inp["pred"]:
            return (("emit", "item"),), st, False
        return (("complete",),), st, True


class RefSkipWhile(Ref):
    init = False                 # passing?
    inputs = ("pred",)

    def next(self, st, inp):
        passing = st or not inp["pred"]
        return ((("emit", "item"),) if passing else ()), passing, False


class RefDefaultIfEmpty(Ref):
    init = False                 # seen an item?

    def next(self, st, inp):
        return (("emit", "item"),), True, False

    def complete(self, st):
        return (("complete",),) if st else (("emit", "captured"), ("complete",))


class RefIgnore(Ref):
    init = ()

    def next(self, st, inp):
        return (), st, False


class RefDistinct(Ref):
    init = False                 # has a previous item?
    inputs = ("eq",)
    extra = ("remember",)        # what is compared against next time is the item just passed on

    def next(self, st, inp):
        if st and inp["eq"]:
            return (), True, False
        return (("remember", "item"), ("emit", "item")), True, False


class RefCount(Ref):
    init = 0

    def next(self, st, inp):
        return (), st + 1, False

    def complete(self, st):
        return (("emit", ("int", st)), ("complete",))


class RefContains(Ref):
    init = ()
    inputs = ("eq",)

    def next(self, st, inp):
        if inp["eq"]:
            return (("emit", "const:true"), ("complete",)), st, True
        return (), st, False

    def complete(self, st):
        return (("emit", "const:false"), ("complete",))

    def error(self, st):
        # crate convention (H-error exemption `contains`): an upstream error reads as "not contained"
        return (("emit", "const:false"), ("complete",))


class RefMap(Ref):
    init = ()
    extra = ("user_fn",)

    def next(self, st, inp):
        return (("user_fn", "item"), ("emit", "mapped")), st, False


class RefTap(Ref):
    init = ()
    extra = ("user_fn",)

    def next(self, st, inp):
        return (("user_fn", "item"), ("emit", "item")), st, False

    def complete(self, st):
        return (("user_fn", "?"), ("complete",))

    def error(self, st):
        return (("user_fn", "error"), ("error",))


OPERATORS = {
    "operators::filter::Filter": ("filter", RefFilter),
    "operators::take_while::TakeWhile": ("take_while", RefTakeWhile),
    "operators::skip_while::SkipWhile": ("skip_while", RefSkipWhile),
    "operators::default_if_empty::DefaultIfEmpty": ("default_if_empty", RefDefaultIfEmpty),
    "operators::ignore_elements::IgnoreElements": ("ignore_elements", RefIgnore),
    "operators::distinct_until_changed::DistinctUntilChanged": ("distinct_until_changed", RefDistinct),
    "operators::count::Count": ("count", RefCount),
    "operators::contains::Contains": ("contains", RefContains),
    "operators::map::Map": ("map", RefMap),
    "operators::tap::Tap": ("tap", RefTap),
}


class Impl:
    """the three handler summaries of one operator and its state vector"""

    def __init__(self, P, E, triple):
        hs = triple["handlers"]
        self.S = {}
        for role, item_kind in (("N", "item"), ("E", "error"), ("C", "none")):
            hb = hs.get(role)
            if hb is None:
                raise Undecided("no %s handler" % role)
            self.S[role] = Summary(P, E, hb, item_param=3, item_kind=item_kind)
        # state cells: union over the handlers, keyed by symbol
        self.cells = {}
        for S in self.S.values():
            for g, k in S.cellinfo.items():
                if k and k[0] in ("int", "flag", "optcell"):
                    pre = {"int": "", "flag": "f:", "optcell": "o:"}[k[0]]
                    self.cells[pre + S._sym(g)] = (k, g)

    def init_state(self):
        st = {}
        for sym, (k, g) in self.cells.items():
            if isinstance(k[1], tuple):
                raise Undecided("counter initialised from a parameter")
            st[sym] = k[1]
        return st

    def input_syms(self, role):
        return sorted(s for s in self.S[role].symbols() if s.startswith("in:"))

    def run(self, role, state, inputs, extra=()):
        """-> set of (normalised trace, raw trace, next state as sorted tuple)"""
        S = self.S[role]
        sigma = dict(state)
        sigma.update(inputs)
        for s in S.symbols():
            if s not in sigma:
                raise Undecided("%s-handler consults `%s`, which the abstraction does not model" % (role, s))
        outs = S.step(sigma, ALPHABET)
        res = []
        for (tr, nx), (p, cells) in outs.items():
            ns = dict(state)
            for g, v in cells.items():
                k = S.cellinfo.get(g)
                pre = {"int": "", "flag": "f:", "optcell": "o:"}.get(k[0] if k else "", "")
                ns[pre + S._sym(g)] = v
            # integer payloads: evaluate what is handed on
            ntr = []
            ints = [n[1] for n in p.note if isinstance(n, tuple) and n and n[0] == "intpayload"]
            ii = 0
            for x in _norm_trace(tr, extra):
                if x[0] == "emit" and x[1] == "int" and ii < len(ints):
                    v = ints[ii]
                    ii += 1
                    val = v[2] if v[1] is None else sigma[v[1]] + v[2]
                    ntr.append(("emit", ("int", val)))
                else:
                    ntr.append(x)
            res.append((tuple(ntr), tr, tuple(sorted(ns.items())), p))
        return res


def _map_inputs(ref, syms, combo):
    """reference input names -> values, from the implementation's input symbols"""
    inp = {}
    for s, v in zip(syms, combo):
        if s == "in:pred":
            inp["pred"] = v
        elif s.startswith("in:eq"):
            inp["eq"] = v
    return inp


def opsem_rule(P, E, H):
    r = RuleResult("OPSEM", "predicate-driven / stateful single-source operators: for every input sequence up to %d items and "
                            "every ending, the handlers' extracted transitions emit and terminate exactly like the operator's "
                            "reference machine" % DEPTH)
    found = set()
    for t in H.triples:
        root = t["root"]
        if root not in OPERATORS or root in found:
            continue
        name, refcls = OPERATORS[root]
        found.add(root)
        hb = t["handlers"].get("N")
        try:
            impl = Impl(P, E, t)
            n = _explore(r, impl, refcls(), root, name, hb)
            r.instance((root, "semantics"), True, "%s: %d product states x inputs explored to depth %d; handler paths N/E/C = %d/%d/%d; state cells %d"
                       % (name, n, DEPTH, len(impl.S["N"].paths), len(impl.S["E"].paths), len(impl.S["C"].paths), len(impl.cells)))
        except Undecided as e:
            r.error("OPSEM: %s not decidable in the abstraction: %s" % (name, e))
    for root in OPERATORS:
        if root not in found:
            r.error("OPSEM: anchor missing: handler triple of %s" % root)
    return r


def _explore(r, impl, ref, root, name, hb):
    reported = set()

    def report(kind, msg, body):
        if kind in reported:
            return
        reported.add(kind)
        r.violate((root, "semantics", kind), msg, body=body)

    start = (tuple(sorted(impl.init_state().items())), ref.init)
    seen = {start}
    frontier = [(start, ())]
    steps = 0
    nsyms = impl.input_syms("N")
    want = set(ref.inputs)
    have = {"pred" if s == "in:pred" else "eq" for s in nsyms}
    if want - have:
        report("never consults " + "/".join(sorted(want - have)),
               "%s never consults the %s its definition depends on" % (name, " and ".join(sorted(want - have))), hb)
    for depth in range(DEPTH + 1):
        nxt = []
        for ((ist, rst), hist) in frontier:
            state = dict(ist)
            # endings after this prefix
            for role, rtrace in (("C", ref.complete(rst)), ("E", ref.error(rst))):
                for (ntr, raw, ns, p) in impl.run(role, state, {}, ref.extra):
                    steps += 1
                    if ntr != tuple(rtrace):
                        report("%s after %s" % ({"C": "completion", "E": "error"}[role], _shape(hist)),
                               "%s: when the source %s after %s, the operator does %s; its definition says %s"
                               % (name, {"C": "completes", "E": "fails"}[role], _hist(hist), _fmt(ntr), _fmt(rtrace)),
                               impl.S[role].b)
            if depth == DEPTH:
                continue
            for combo in product((False, True), repeat=len(nsyms)):
                inputs = dict(zip(nsyms, combo))
                rinp = _map_inputs(ref, nsyms, combo)
                for k in ref.inputs:
                    rinp.setdefault(k, False)
                rtrace, rst2, rdone = ref.next(rst, rinp)
                outs = impl.run("N", state, inputs, ref.extra)
                if not outs:
                    raise Undecided("no feasible item path in state %s" % (state,))
                for (ntr, raw, ns, p) in outs:
                    steps += 1
                    label = ",".join("%s=%s" % (k, str(v).lower()) for k, v in sorted(rinp.items())) or "item"
                    if ntr != tuple(rtrace):
                        report("item step %s" % _shape(hist + (label,)),
                               "%s: on an item with %s after %s the operator does %s; its definition says %s "
                               "(extracted transition: guard %s)"
                               % (name, label or "any value", _hist(hist), _fmt(ntr), _fmt(rtrace),
                                  " && ".join(_show_b(x) for x in p.pc) or "true"), hb)
                        continue
                    if rdone:
                        continue
                    key = (ns, rst2)
                    if key not in seen:
                        seen.add(key)
                        nxt.append((key, hist + (label,)))
        frontier = nxt
        if not frontier:
            break
    return steps


def _hist(h):
    return "no items" if not h else "items [" + "; ".join(h) + "]"


def _shape(h):
    # a stable, short key for the kind of deviation (no line numbers, no symbols)
    return "/".join(h[-2:]) if h else "start"
