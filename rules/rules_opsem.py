"""OPSEM: control-level operational semantics of the stateful / predicate-driven single-source
operators of C02, decided by lock-step exploration of two transition systems:

  * the implementation's, extracted from the MIR of the operator's three handlers by the symbolic
    path summariser of rules_count.Summary (guards over flags / option cells / counters / the
    outcome of the user predicate or of `==`, effect traces, state updates), and
  * the operator's ReactiveX definition written as a small reference machine below.

From the initial states (read off the allocation sites) every sequence of inputs up to DEPTH items is
explored - an input is the outcome of the user's predicate and/or of the equality test, the only
things these handlers ever ask about an item - and after every prefix the source may complete or
fail.  At each step the implementation's emissions and terminal (what is handed on: the handler's own
item, a stored item, the captured default, a constant, the counter) must equal the reference's.
The product state space is finite (booleans, presence bits and a counter bounded by DEPTH), so the
exploration is exhaustive for that depth; nothing is executed.
Not decided: what `map`/`scan`/`reduce` compute from the values (the user function is opaque)."""
from itertools import product
from core import RuleResult
from effects import *
from rules_count import Summary, Undecided, ALPHABET, is_int, is_bool, _show_b

DEPTH = 5


def _norm_trace(tr, extra=()):
    out = []
    for x in tr:
        if x[0] in extra:
            out.append(x)
        elif x[0] == "sink_next":
            out.append(("emit", x[1]))
        elif x[0] in ("sink_complete", "sink_complete_force"):
            out.append(("complete",))
        elif x[0] == "sink_error":
            out.append(("error",))
        elif x[0] in ("panic", "loop", "opaque"):
            out.append(x)
    return tuple(out)


def _fmt(tr):
    return "[" + ", ".join(x[0] if len(x) == 1 else "%s(%s)" % (x[0], x[1]) for x in tr) + "]"


# ---- reference machines: next(state, inp) -> (trace, state', done) ; complete(state) ; error(state)
class Ref:
    init = None
    inputs = ()          # names of boolean inputs consulted ("pred", "eq")
    extra = ()           # further effects that belong to the definition ("remember", "user_fn")

    def next(self, st, inp):
        raise NotImplementedError

    def complete(self, st):
        return (("complete",),)

    def error(self, st):
        return (("error",),)


class RefFilter(Ref):
    init = ()
    inputs = ("pred",)

    def next(self, st, inp):
        return ((("emit", "item"),) if inp["pred"] else ()), st, False


class RefTakeWhile(Ref):
    init = ()
    inputs = ("pred",)

    def next(self, st, inp):
        if inp["pred"]:
            return (("emit", "item"),), st, False
        return (("complete",),), st, True


class RefSkipWhile(Ref):
    init = False                 # passing?
    inputs = ("pred",)

    def next(self, st, inp):
        passing = st or not inp["pred"]
        return ((("emit", "item"),) if passing else ()), passing, False


class RefDefaultIfEmpty(Ref):
    init = False                 # seen an item?

    def next(self, st, inp):
        return (("emit", "item"),), True, False

    def complete(self, st):
        return (("complete",),) if st else (("emit", "captured"), ("complete",))


class RefIgnore(Ref):
    init = ()

    def next(self, st, inp):
        return (), st, False


class RefDistinct(Ref):
    init = False                 # has a previous item?
    inputs = ("eq",)
    extra = ("remember",)        # what is compared against next time is the item just passed on

    def next(self, st, inp):
        if st and inp["eq"]:
            return (), True, False
        return (("remember", "item"), ("emit", "item")), True, False


class RefCount(Ref):
    init = 0

    def next(self, st, inp):
        return (), st + 1, False

    def complete(self, st):
        return (("emit", ("int", st)), ("complete",))


class RefContains(Ref):
    init = ()
    inputs = ("eq",)

    def next(self, st, inp):
        if inp["eq"]:
            return (("emit", "const:true"), ("complete",)), st, True
        return (), st, False

    def complete(self, st):
        return (("emit", "const:false"), ("complete",))

    def error(self, st):
        # crate convention (H-error exemption `contains`): an upstream error reads as "not contained"
        return (("emit", "const:false"), ("complete",))


class RefMap(Ref):
    init = ()
    extra = ("user_fn",)

    def next(self, st, inp):
        return (("user_fn", "item"), ("emit", "mapped")), st, False


class RefTap(Ref):
    init = ()
    extra = ("user_fn",)

    def next(self, st, inp):
        return (("user_fn", "item"), ("emit", "item")), st, False

    def complete(self, st):
        return (("user_fn", "?"), ("complete",))

    def error(self, st):
        return (("user_fn", "error"), ("error",))


class RefReduce(Ref):
    init = False                 # has an accumulator?
    extra = ("remember", "user_fn")
    emits_each = False

    def next(self, st, inp):
        tr = (("user_fn", "tuple:stored,item"), ("remember", "mapped")) if st else (("remember", "item"),)
        if self.emits_each:
            tr = tr + (("emit", "stored"),)
        return tr, True, False

    def complete(self, st):
        if self.emits_each:
            return (("complete",),)
        return (("emit", "stored"), ("complete",)) if st else (("complete",),)


class RefScan(RefReduce):
    emits_each = True


class RefSum(Ref):
    init = False
    extra = ("remember", "combine")

    def next(self, st, inp):
        return ((("combine", "item+stored"), ("remember", "combined")) if st else (("remember", "item"),)), True, False

    def complete(self, st):
        return (("emit", "stored"), ("complete",)) if st else (("complete",),)


class RefSumAndCount(Ref):
    init = (False, 0)
    extra = ("remember", "combine")

    def next(self, st, inp):
        has, n = st
        return ((("combine", "item+stored"), ("remember", "combined")) if has else (("remember", "item"),)), (True, n + 1), False

    def complete(self, st):
        has, n = st
        return (("emit", "tuple:stored,int=%d" % n), ("complete",)) if has else (("complete",),)


class RefMin(Ref):
    init = False
    inputs = ("lt", "gt")
    extra = ("remember",)
    better = "lt"                # the item replaces the stored one iff item < stored

    def next(self, st, inp):
        if not st:
            return (("remember", "item"),), True, False
        if inp[self.better]:
            return (("remember", "item"),), True, False
        if not inp["lt"] and not inp["gt"]:
            # a tie: keeping either of two equal items is the same minimum / maximum
            return ANY_OF((), (("remember", "item"),)), True, False
        return (), True, False

    def complete(self, st):
        return (("emit", "stored"), ("complete",)) if st else (("complete",),)


class RefMax(RefMin):
    better = "gt"


class ANY_OF(tuple):
    """several acceptable traces"""
    def __new__(cls, *alts):
        return super().__new__(cls, alts)


OPERATORS = {
    "operators::filter::Filter": ("filter", RefFilter),
    "operators::take_while::TakeWhile": ("take_while", RefTakeWhile),
    "operators::skip_while::SkipWhile": ("skip_while", RefSkipWhile),
    "operators::default_if_empty::DefaultIfEmpty": ("default_if_empty", RefDefaultIfEmpty),
    "operators::ignore_elements::IgnoreElements": ("ignore_elements", RefIgnore),
    "operators::distinct_until_changed::DistinctUntilChanged": ("distinct_until_changed", RefDistinct),
    "operators::count::Count": ("count", RefCount),
    "operators::contains::Contains": ("contains", RefContains),
    "operators::map::Map": ("map", RefMap),
    "operators::tap::Tap": ("tap", RefTap),
    "operators::reduce::Reduce": ("reduce", RefReduce),
    "operators::scan::Scan": ("scan", RefScan),
    "operators::sum::Sum": ("sum", RefSum),
    "operators::sum_and_count::SumAndCount": ("sum_and_count", RefSumAndCount),
    "operators::min::Min": ("min", RefMin),
    "operators::max::Max": ("max", RefMax),
}


class Impl:
    """the three handler summaries of one operator and its state vector"""

    def __init__(self, P, E, triple):
        hs = triple["handlers"]
        self.S = {}
        for role, item_kind in (("N", "item"), ("E", "error"), ("C", "none")):
            hb = hs.get(role)
            if hb is None:
                raise Undecided("no %s handler" % role)
            self.S[role] = Summary(P, E, hb, item_param=3, item_kind=item_kind)
        # state cells: union over the handlers, keyed by symbol
        self.cells = {}
        for S in self.S.values():
            for g, k in S.cellinfo.items():
                if k and k[0] in ("int", "flag", "optcell"):
                    pre = {"int": "", "flag": "f:", "optcell": "o:"}[k[0]]
                    self.cells[pre + S._sym(g)] = (k, g)

    def init_state(self):
        st = {}
        for sym, (k, g) in self.cells.items():
            if isinstance(k[1], tuple):
                raise Undecided("counter initialised from a parameter")
            st[sym] = k[1]
        return st

    def input_syms(self, role):
        return sorted(s for s in self.S[role].symbols() if s.startswith("in:"))

    def run(self, role, state, inputs, extra=()):
        """-> set of (normalised trace, raw trace, next state as sorted tuple)"""
        S = self.S[role]
        sigma = dict(state)
        sigma.update(inputs)
        for s in S.symbols():
            if s not in sigma:
                raise Undecided("%s-handler consults `%s`, which the abstraction does not model" % (role, s))
        outs = S.step(sigma, ALPHABET)
        res = []
        for (tr, nx), (p, cells) in outs.items():
            ns = dict(state)
            for g, v in cells.items():
                k = S.cellinfo.get(g)
                pre = {"int": "", "flag": "f:", "optcell": "o:"}.get(k[0] if k else "", "")
                ns[pre + S._sym(g)] = v
            # integer payloads: evaluate what is handed on
            ntr = []
            ints = [n[1] for n in p.note if isinstance(n, tuple) and n and n[0] == "intpayload"]
            ii = 0
            for x in _norm_trace(tr, extra):
                if x[0] == "emit" and x[1] == "int" and ii < len(ints):
                    v = ints[ii]
                    ii += 1
                    val = v[2] if v[1] is None else sigma[v[1]] + v[2]
                    ntr.append(("emit", ("int", val)))
                elif x[0] == "emit" and isinstance(x[1], str) and x[1].startswith("tuple:") and "int" in x[1].split(":", 1)[1].split(","):
                    parts = []
                    for part in x[1].split(":", 1)[1].split(","):
                        if part == "int" and ii < len(ints):
                            v = ints[ii]
                            ii += 1
                            parts.append("int=%d" % (v[2] if v[1] is None else sigma[v[1]] + v[2]))
                        else:
                            parts.append(part)
                    ntr.append(("emit", "tuple:" + ",".join(parts)))
                else:
                    ntr.append(x)
            res.append((tuple(ntr), tr, tuple(sorted(ns.items())), p))
        return res


def _map_inputs(ref, syms, combo):
    """reference input names -> values, from the implementation's input symbols"""
    inp = {}
    for s, v in zip(syms, combo):
        if s == "in:pred":
            inp["pred"] = v
        elif s.startswith("in:eq"):
            inp["eq"] = v
        elif s in ("in:lt", "in:gt"):
            inp[s[3:]] = v
    return inp


def opsem_rule(P, E, H):
    r = RuleResult("OPSEM", "predicate-driven / stateful single-source operators: for every input sequence up to %d items and "
                            "every ending, the handlers' extracted transitions emit and terminate exactly like the operator's "
                            "reference machine" % DEPTH)
    found = set()
    for t in H.triples:
        root = t["root"]
        if root not in OPERATORS or root in found:
            continue
        name, refcls = OPERATORS[root]
        found.add(root)
        hb = t["handlers"].get("N")
        try:
            impl = Impl(P, E, t)
            n = _explore(r, impl, refcls(), root, name, hb)
            r.instance((root, "semantics"), True, "%s: %d product states x inputs explored to depth %d; handler paths N/E/C = %d/%d/%d; state cells %d"
                       % (name, n, DEPTH, len(impl.S["N"].paths), len(impl.S["E"].paths), len(impl.S["C"].paths), len(impl.cells)))
        except Undecided as e:
            r.error("OPSEM: %s not decidable in the abstraction: %s" % (name, e))
    for root in OPERATORS:
        if root not in found:
            r.error("OPSEM: anchor missing: handler triple of %s" % root)
    return r


def _explore(r, impl, ref, root, name, hb):
    reported = set()

    def report(kind, msg, body):
        if kind in reported:
            return
        reported.add(kind)
        r.violate((root, "semantics", kind), msg, body=body)

    start = (tuple(sorted(impl.init_state().items())), ref.init)
    seen = {start}
    frontier = [(start, ())]
    steps = 0
    nsyms = impl.input_syms("N")
    want = set(ref.inputs)
    have = {"pred" if s == "in:pred" else (s[3:] if s in ("in:lt", "in:gt") else "eq") for s in nsyms}
    if want & {"lt", "gt"} and have & {"lt", "gt"}:
        have |= {"lt", "gt"}         # one ordered comparison is enough to decide a minimum / maximum
    if want - have:
        report("never consults " + "/".join(sorted(want - have)),
               "%s never consults the %s its definition depends on" % (name, " and ".join(sorted(want - have))), hb)
    for depth in range(DEPTH + 1):
        nxt = []
        for ((ist, rst), hist) in frontier:
            state = dict(ist)
            # endings after this prefix
            for role, rtrace in (("C", ref.complete(rst)), ("E", ref.error(rst))):
                for (ntr, raw, ns, p) in impl.run(role, state, {}, ref.extra):
                    steps += 1
                    if ntr != tuple(rtrace):
                        report("%s after %s" % ({"C": "completion", "E": "error"}[role], _shape(hist)),
                               "%s: when the source %s after %s, the operator does %s; its definition says %s"
                               % (name, {"C": "completes", "E": "fails"}[role], _hist(hist), _fmt(ntr), _fmt(rtrace)),
                               impl.S[role].b)
            if depth == DEPTH:
                continue
            for combo in product((False, True), repeat=len(nsyms)):
                inputs = dict(zip(nsyms, combo))
                base = _map_inputs(ref, nsyms, combo)
                # every valuation of the reference's inputs consistent with what the implementation asked
                free = [k for k in ref.inputs if k not in base]
                ref_inputs = []
                for vals in product((False, True), repeat=len(free)):
                    d2 = dict(base)
                    d2.update(zip(free, vals))
                    if d2.get("lt") and d2.get("gt"):
                        continue                  # an item is not both smaller and greater
                    ref_inputs.append(d2)
                if not ref_inputs:
                    continue
                outs = impl.run("N", state, inputs, ref.extra)
                if not outs:
                    raise Undecided("no feasible item path in state %s" % (state,))
                for rinp in ref_inputs:
                    rtrace, rst2, rdone = ref.next(rst, rinp)
                    accept = [tuple(a) for a in rtrace] if isinstance(rtrace, ANY_OF) else [tuple(rtrace)]
                    label = ",".join("%s=%s" % (k, str(v).lower()) for k, v in sorted(rinp.items())) or "item"
                    for (ntr, raw, ns, p) in outs:
                        steps += 1
                        if ntr not in accept:
                            report("item step %s" % _shape(hist + (label,)),
                                   "%s: on an item with %s after %s the operator does %s; its definition says %s "
                                   "(extracted transition: guard %s)"
                                   % (name, label or "any value", _hist(hist), _fmt(ntr), " or ".join(_fmt(a) for a in accept),
                                      " && ".join(_show_b(x) for x in p.pc) or "true"), hb)
                            continue
                        if rdone:
                            continue
                        key = (ns, rst2)
                        if key not in seen:
                            seen.add(key)
                            nxt.append((key, hist + (label,)))
        frontier = nxt
        if not frontier:
            break
    return steps


def _hist(h):
    return "no items" if not h else "items [" + "; ".join(h) + "]"


def _shape(h):
    # a stable, short key for the kind of deviation (no line numbers, no symbols)
    return "/".join(h[-2:]) if h else "start"
