"""OPSEM: control-level operational semantics of the stateful / predicate-driven single-source
operators of C02, decided by lock-step exploration of two transition systems:

  * the implementation's, extracted from the MIR of the operator's three handlers by the symbolic
    path summariser of rules_count.Summary (guards over flags / option cells / counters / the
    outcome of the user predicate or of `==`, effect traces, state updates), and
  * the operator's ReactiveX definition written as a small reference machine below.

From the initial states (read off the allocation sites) every sequence of inputs up to DEPTH items is
explored - an input is the outcome of the user's predicate and/or of the equality test, the only
things these handlers ever ask about an item - and after every prefix the source may complete or
fail.  At each step the implementation's emissions and terminal (what is handed on: the handler's own
item, a stored item, the captured default, a constant, the counter) must equal the reference's.
The product state space is finite (booleans, presence bits and a counter bounded by DEPTH), so the
exploration is exhaustive for that depth; nothing is executed.
Not decided: what `map`/`scan`/`reduce` compute from the values (the user function is opaque)."""
from itertools import product
from core import RuleResult
from effects import *
from rules_count import Summary, Undecided, ALPHABET, is_int, is_bool, _show_b

DEPTH = 5


def _norm_trace(tr, extra=()):
    out = []
    for x in tr:
        if x[0] in extra:
            out.append(x)
        elif x[0] == "sink_next":
            out.append(("emit", x[1]))
        elif x[0] in ("sink_complete", "sink_complete_force"):
            out.append(("complete",))
        elif x[0] == "sink_error":
            out.append(("error",))
        elif x[0] in ("panic", "loop", "opaque"):
            out.append(x)
    return tuple(out)


def _fmt(tr):
    return "[" + ", ".join(x[0] if len(x) == 1 else "%s(%s)" % (x[0], x[1]) for x in tr) + "]"


# ---- reference machines: next(state, inp) -> (trace, state', done) ; complete(state) ; error(state)
class Ref:
    init = None
    inputs = ()          # names of boolean inputs consulted ("pred", "eq")
    extra = ()           # further effects that belong to the definition ("remember", "user_fn")

    def next(self, st, inp):
        raise NotImplementedError

    def complete(self, st):
        return (("complete",),)

    def error(self, st):
        return (("error",),)


class RefFilter(Ref):
    init = ()
    inputs = ("pred",)

    def next(self, st, inp):
        return ((("emit", "item"),) if inp["pred"] else ()), st, False


class RefTakeWhile(Ref):
    init = ()
    inputs = ("pred",)

    def next(self, st, inp):
        if inp["pred"]:
            return (("emit", "item"),), st, False
        return (("complete",),), st, True


class RefSkipWhile(Ref):
    init = False                 # passing?
    inputs = ("pred",)

    def next(self, st, inp):
        passing = st or not inp["pred"]
        return ((("emit", "item"),) if passing else ()), passing, False


class RefDefaultIfEmpty(Ref):
    init = False                 # seen an item?
    extra = ("set_flag",)        # `not empty` is recorded before the item goes out: a completion arriving while the item is being
                                 # delivered (re-entrantly, or from another thread) must not add the default

    def next(self, st, inp):
        return (("set_flag",), ("emit", "item")), True, False

    def complete(self, st):
        return (("complete",),) if st else (("emit", "captured"), ("complete",))


class RefIgnore(Ref):
    init = ()

    def next(self, st, inp):
        return (), st, False


class RefDistinct(Ref):
    init = False                 # has a previous item?
    inputs = ("eq",)
    extra = ("remember",)        # what is compared against next time is the item just passed on

    def next(self, st, inp):
        if st and inp["eq"]:
            return (), True, False
        return (("remember", "item"), ("emit", "item")), True, False


class RefCount(Ref):
    init = 0

    def next(self, st, inp):
        return (), st + 1, False

    def complete(self, st):
        return (("emit", ("int", st)), ("complete",))


class RefContains(Ref):
    init = ()
    inputs = ("eq",)

    def next(self, st, inp):
        if inp["eq"]:
            return (("emit", "const:true"), ("complete",)), st, True
        return (), st, False

    def complete(self, st):
        return (("emit", "const:false"), ("complete",))

    def error(self, st):
        # crate convention (H-error exemption `contains`): an upstream error reads as "not contained"
        return (("emit", "const:false"), ("complete",))


class RefMap(Ref):
    init = ()
    extra = ("user_fn",)

    def next(self, st, inp):
        return (("user_fn", "item"), ("emit", "mapped")), st, False


class RefTap(Ref):
    init = ()
    extra = ("user_fn",)

    def next(self, st, inp):
        return (("user_fn", "item"), ("emit", "item")), st, False

    def complete(self, st):
        return (("user_fn", "?"), ("complete",))

    def error(self, st):
        return (("user_fn", "error"), ("error",))


class RefReduce(Ref):
    init = False                 # has an accumulator?
    extra = ("remember", "user_fn")
    emits_each = False

    def next(self, st, inp):
        tr = (("user_fn", "tuple:stored,item"), ("remember", "mapped")) if st else (("remember", "item"),)
        if self.emits_each:
            tr = tr + (("emit", "stored"),)
        return tr, True, False

    def complete(self, st):
        if self.emits_each:
            return (("complete",),)
        return (("emit", "stored"), ("complete",)) if st else (("complete",),)


class RefScan(RefReduce):
    emits_each = True


class RefSum(Ref):
    init = False
    extra = ("remember", "combine")

    def next(self, st, inp):
        return ((("combine", "item+stored"), ("remember", "combined")) if st else (("remember", "item"),)), True, False

    def complete(self, st):
        return (("emit", "stored"), ("complete",)) if st else (("complete",),)


class RefSumAndCount(Ref):
    init = (False, 0)
    extra = ("remember", "combine")

    def next(self, st, inp):
        has, n = st
        return ((("combine", "item+stored"), ("remember", "combined")) if has else (("remember", "item"),)), (True, n + 1), False

    def complete(self, st):
        has, n = st
        return (("emit", "tuple:stored,int=%d" % n), ("complete",)) if has else (("complete",),)


class RefMin(Ref):
    init = False
    inputs = ("lt", "gt")
    extra = ("remember",)
    better = "lt"                # the item replaces the stored one iff item < stored

    def next(self, st, inp):
        if not st:
            return (("remember", "item"),), True, False
        if inp[self.better]:
            return (("remember", "item"),), True, False
        if not inp["lt"] and not inp["gt"]:
            # a tie: keeping either of two equal items is the same minimum / maximum
            return ANY_OF((), (("remember", "item"),)), True, False
        return (), True, False

    def complete(self, st):
        return (("emit", "stored"), ("complete",)) if st else (("complete",),)


class RefMax(RefMin):
    better = "gt"


class RefPass(Ref):
    init = ()

    def next(self, st, inp):
        return (("emit", "item"),), st, False


class RefAll(Ref):
    """handlers of all(): they sit behind filter(!p).take(1), so any item is a counter-example"""
    init = ()

    def next(self, st, inp):
        return (("emit", "const:false"), ("complete",)), st, True

    def complete(self, st):
        return (("emit", "const:true"), ("complete",))


class RefMaterialize(Ref):
    init = ()

    def next(self, st, inp):
        return (("emit", "Next(item)"),), st, False

    def complete(self, st):
        return (("emit", "Complete()"), ("complete",))

    def error(self, st):
        return (("emit", "Error(error)"), ("complete",))


class RefDematerialize(Ref):
    init = ()
    inputs = ("variant",)

    def next(self, st, inp):
        v = inp["variant"]
        if v == "Next":
            return (("emit", "item.Next"),), st, False
        if v == "Error":
            return (("error",),), st, True
        return (("complete",),), st, True


class RefMapToAny(Ref):
    init = ()

    def next(self, st, inp):
        return (("emit", "boxed(item)"),), st, False


class RefSeqEqual(Ref):
    """handlers of sequence_equal behind its zip: a row whose members differ ends it with `false`"""
    init = ()
    inputs = ("all",)

    def next(self, st, inp):
        if inp["all"]:
            return (), st, False
        return (("emit", "const:false"), ("complete",)), st, True

    def complete(self, st):
        return (("emit", "const:true"), ("complete",))


class RefCombine(Ref):
    init = ()
    extra = ("user_fn",)

    def next(self, st, inp):
        return (("user_fn", "item"), ("emit", "mapped")), st, False


class RefTimestamp(Ref):
    init = ()

    def next(self, st, inp):
        return (("emit", "tuple:other,item"),), st, False


class RefTimeInterval(Ref):
    init = False                 # has a previous instant?

    def next(self, st, inp):
        return ((("emit", "other"),) if st else ()), True, False

    def complete(self, st):
        return (("emit", "other"), ("complete",)) if st else (("complete",),)


class RefGroupBy(Ref):
    init = ()
    inputs = ("known",)
    extra = ("user_fn", "map_insert", "window_next")

    def next(self, st, inp):
        if inp["known"]:
            return (("user_fn", "item"), ("window_next", "item")), st, False
        return (("user_fn", "item"), ("map_insert",), ("emit", "window"), ("window_next", "item")), st, False

    extra_end = ("window_complete", "window_error")
    fanout = ("window_complete", "window_error")

    def complete(self, st):
        return (("window_complete",), ("complete",))

    def error(self, st):
        return (("window_error",), ("error",))


class RefRetryWhen(Ref):
    init = ()
    inputs = ("pred",)
    extra = ("resubscribe",)

    def next(self, st, inp):
        return (("emit", "item"),), st, False

    def error_with(self, st, inp):
        return (("resubscribe", "do_subscribe"),) if inp["pred"] else (("error",),)


class ANY_OF(tuple):
    """several acceptable traces"""
    def __new__(cls, *alts):
        return super().__new__(cls, alts)


OPERATORS = {
    "operators::filter::Filter": ("filter", RefFilter),
    "operators::take_while::TakeWhile": ("take_while", RefTakeWhile),
    "operators::skip_while::SkipWhile": ("skip_while", RefSkipWhile),
    "operators::default_if_empty::DefaultIfEmpty": ("default_if_empty", RefDefaultIfEmpty),
    "operators::ignore_elements::IgnoreElements": ("ignore_elements", RefIgnore),
    "operators::distinct_until_changed::DistinctUntilChanged": ("distinct_until_changed", RefDistinct),
    "operators::count::Count": ("count", RefCount),
    "operators::contains::Contains": ("contains", RefContains),
    "operators::map::Map": ("map", RefMap),
    "operators::tap::Tap": ("tap", RefTap),
    "operators::reduce::Reduce": ("reduce", RefReduce),
    "operators::scan::Scan": ("scan", RefScan),
    "operators::sum::Sum": ("sum", RefSum),
    "operators::sum_and_count::SumAndCount": ("sum_and_count", RefSumAndCount),
    "operators::min::Min": ("min", RefMin),
    "operators::max::Max": ("max", RefMax),
    "operators::all::All": ("all", RefAll),
    "operators::element_at::ElementAt": ("element_at", RefPass),
    "operators::start_with::StartWith": ("start_with", RefPass),
    "operators::materialize::Materialize": ("materialize", RefMaterialize),
    "operators::dematerialize::Dematerialize": ("dematerialize", RefDematerialize),
    "operators::map_to_any::MapToAny": ("map_to_any", RefMapToAny),
    "operators::sequence_equal::SequenceEqual": ("sequence_equal", RefSeqEqual),
    "operators::combine_latest::CombineLatest": ("combine_latest", RefCombine),
    "operators::timestamp::Timestamp": ("timestamp", RefTimestamp),
    "operators::time_interval::TimeInterval": ("time_interval", RefTimeInterval),
    "operators::group_by::GroupBy": ("group_by", RefGroupBy),
}


class Impl:
    """the three handler summaries of one operator and its state vector"""

    def __init__(self, P, E, triple):
        hs = triple["handlers"]
        self.S = {}
        for role, item_kind in (("N", "item"), ("E", "error"), ("C", "none")):
            hb = hs.get(role)
            if hb is None:
                raise Undecided("no %s handler" % role)
            self.S[role] = Summary(P, E, hb, item_param=3, item_kind=item_kind)
        # state cells: union over the handlers, keyed by symbol
        self.cells = {}
        for S in self.S.values():
            for g, k in S.cellinfo.items():
                if k and k[0] in ("int", "flag", "optcell"):
                    pre = {"int": "", "flag": "f:", "optcell": "o:"}[k[0]]
                    self.cells[pre + S._sym(g)] = (k, g)

    def init_state(self):
        st = {}
        for sym, (k, g) in self.cells.items():
            if isinstance(k[1], tuple):
                raise Undecided("counter initialised from a parameter")
            st[sym] = k[1]
        return st

    def input_syms(self, role):
        return sorted(s for s in self.S[role].symbols() if s.startswith("in:") and s != "in:live")

    def run(self, role, state, inputs, extra=()):
        """-> set of (normalised trace, raw trace, next state as sorted tuple)"""
        S = self.S[role]
        sigma = dict(state)
        sigma.update(inputs)
        sigma.setdefault("in:live", True)
        for s in S.symbols():
            if s not in sigma:
                raise Undecided("%s-handler consults `%s`, which the abstraction does not model" % (role, s))
        outs = S.step(sigma, ALPHABET)
        res = []
        for (tr, nx), (p, cells) in outs.items():
            ns = dict(state)
            for g, v in cells.items():
                ns[S.cellsym(g)] = v
            # integer payloads: evaluate what is handed on
            ntr = []
            ints = [n[1] for n in p.note if isinstance(n, tuple) and n and n[0] == "intpayload"]
            ii = 0
            for x in _norm_trace(tr, extra):
                if x[0] == "emit" and x[1] == "int" and ii < len(ints):
                    v = ints[ii]
                    ii += 1
                    val = v[2] if v[1] is None else sigma[v[1]] + v[2]
                    ntr.append(("emit", ("int", val)))
                elif x[0] == "emit" and isinstance(x[1], str) and x[1].startswith("tuple:") and "int" in x[1].split(":", 1)[1].split(","):
                    parts = []
                    for part in x[1].split(":", 1)[1].split(","):
                        if part == "int" and ii < len(ints):
                            v = ints[ii]
                            ii += 1
                            parts.append("int=%d" % (v[2] if v[1] is None else sigma[v[1]] + v[2]))
                        else:
                            parts.append(part)
                    ntr.append(("emit", "tuple:" + ",".join(parts)))
                else:
                    ntr.append(x)
            res.append((tuple(ntr), tr, tuple(sorted(ns.items())), p))
        return res


def _map_inputs(ref, syms, combo):
    """reference input names -> values, from the implementation's input symbols"""
    inp = {}
    for s, v in zip(syms, combo):
        if s == "in:pred":
            inp["pred"] = v
        elif s.startswith("in:eq"):
            inp["eq"] = v
        elif s in ("in:lt", "in:gt"):
            inp[s[3:]] = v
        elif s in ("in:all", "in:any", "in:known"):
            inp[s[3:]] = v
        elif s == "in:variant":
            inp["variant"] = ref.variant_names[v] if getattr(ref, "variant_names", None) else v
    return inp


def opsem_rule(P, E, H):
    r = RuleResult("OPSEM", "predicate-driven / stateful single-source operators: for every input sequence up to %d items and "
                            "every ending, the handlers' extracted transitions emit and terminate exactly like the operator's "
                            "reference machine" % DEPTH)
    found = set()
    for t in H.triples:
        root = t["root"]
        if root not in OPERATORS or root in found:
            continue
        name, refcls = OPERATORS[root]
        found.add(root)
        hb = t["handlers"].get("N")
        try:
            impl = Impl(P, E, t)
            n = _explore(r, impl, refcls(), root, name, hb)
            r.instance((root, "semantics"), True, "%s: %d product states x inputs explored to depth %d; handler paths N/E/C = %d/%d/%d; state cells %d"
                       % (name, n, DEPTH, len(impl.S["N"].paths), len(impl.S["E"].paths), len(impl.S["C"].paths), len(impl.cells)))
        except Undecided as e:
            r.error("OPSEM: %s not decidable in the abstraction: %s" % (name, e))
    for root in OPERATORS:
        if root not in found:
            try:
                _delegation(P, E, r, root)
            except Undecided as e:
                r.error("OPSEM: anchor missing: handler triple of %s (%s)" % (root, e))
    return r


def _delegation(P, E, r, root):
    """An operator that has no handlers of its own any more but is written as a pipeline of other operators (`source.map(|_| 1).sum()`):
    the pipeline of THEIR reference machines must produce the same shape of output (how many items, which terminal) as the operator's
    own reference on every short script - `sum` of nothing is nothing, `count` of nothing is 0."""
    name, refcls = OPERATORS[root]
    ex = [b for b in P.orig.values() if b.nid == root + "::execute"]
    if len(ex) != 1:
        raise Undecided("no execute")
    by_mod = {k.split("::")[1]: k for k in OPERATORS}
    chain = []
    for c in sorted(ex[0].calls, key=lambda c: c.bb):
        if not c.local or not c.path.startswith("operators::"):
            continue
        mod = c.path.split("::")[1]
        last = c.path.split("::")[-1]
        if last in ("new", "clone"):
            continue
        if mod == root.split("::")[1]:
            continue
        if mod not in by_mod:
            raise Undecided("delegates to %s, which has no reference machine" % c.path)
        chain.append(by_mod[mod])
    if not chain:
        raise Undecided("neither own handlers nor a pipeline of operators")
    refs = [OPERATORS[k][1]() for k in chain]
    own = refcls()
    import itertools
    names = sorted({i for x in refs + [own] for i in x.inputs})

    def run(machines, script):
        states = [m.init for m in machines]
        done = [False] * len(machines)
        out = []

        def feed(i, ev, inp):
            if i == len(machines):
                out.append(ev)
                return
            if done[i]:
                return
            m = machines[i]
            if ev == "N":
                tr, st2, d = m.next(states[i], inp)
                states[i] = st2
                done[i] = done[i] or d
            elif ev == "C":
                tr = m.complete(states[i])
                done[i] = True
            else:
                tr = m.error(states[i])
                done[i] = True
            for x in tr:
                if x[0] == "emit":
                    feed(i + 1, "N", inp)
                elif x[0] == "complete":
                    feed(i + 1, "C", inp)
                elif x[0] == "error":
                    feed(i + 1, "E", inp)
        for (ev, inp) in script:
            feed(0, ev, inp)
        return out
    n = 0
    for k in range(0, 4):
        for end in ("C", "E", None):
            for vals in itertools.product(*[[False, True]] * (len(names) * max(k, 1))) if names else [()]:
                inps = []
                for j in range(k):
                    inps.append({nm: (vals[j * len(names) + q] if names else False) for q, nm in enumerate(names)})
                script = [("N", inps[j]) for j in range(k)] + ([(end, {nm: False for nm in names})] if end else [])
                try:
                    a, b_ = run(refs, script), run([own], script)
                except Exception as e:
                    raise Undecided("reference machines cannot be composed: %s" % e)
                n += 1
                if a != b_:
                    r.violate((root, "semantics", "delegation"),
                              "%s has no handlers of its own but is the pipeline %s; for the source script [%s] that pipeline produces [%s], "
                              "%s's definition produces [%s]" % (name, " -> ".join(c_.split("::")[1] for c_ in chain),
                                                                   ", ".join(e_ for e_, _ in script) or "silence", ", ".join(a) or "nothing",
                                                                   name, ", ".join(b_) or "nothing"), body=ex[0])
                    r.instance((root, "semantics"), True, "%s as a pipeline of %s: compared on %d scripts" % (name, chain, n))
                    return
    r.instance((root, "semantics"), True, "%s as a pipeline of %s: same output shape on %d scripts" % (name, chain, n))


def _explore(r, impl, ref, root, name, hb):
    reported = set()

    def report(kind, msg, body):
        if kind in reported:
            return
        reported.add(kind)
        r.violate((root, "semantics", kind), msg, body=body)

    start = (tuple(sorted(impl.init_state().items())), ref.init)
    seen = {start}
    frontier = [(start, ())]
    steps = 0
    nsyms = impl.input_syms("N")
    want = set(ref.inputs)
    have = {"pred" if s == "in:pred" else (s[3:] if s in ("in:lt", "in:gt", "in:variant", "in:all", "in:any", "in:known") else "eq") for s in nsyms}
    ref.variant_names = impl.S["N"]._item_variants()
    if want & {"lt", "gt"} and have & {"lt", "gt"}:
        have |= {"lt", "gt"}         # one ordered comparison is enough to decide a minimum / maximum
    if want - have:
        report("never consults " + "/".join(sorted(want - have)),
               "%s never consults the %s its definition depends on" % (name, " and ".join(sorted(want - have))), hb)
    for depth in range(DEPTH + 1):
        nxt = []
        for ((ist, rst), hist) in frontier:
            state = dict(ist)
            # endings after this prefix
            fan = tuple(getattr(ref, "fanout", ()))       # effects done once per open group: any number of times, in a loop or not
            for role, rtrace in (("C", ref.complete(rst)), ("E", ref.error(rst))):
                saw_fan = False
                for (ntr, raw, ns, p) in impl.run(role, state, {}, tuple(ref.extra) + tuple(getattr(ref, "extra_end", ())) + ("loop",)):
                    steps += 1
                    if fan:
                        saw_fan = saw_fan or any(x[0] in fan for x in ntr)
                        if any(x[0] == "loop" for x in ntr):
                            continue      # the fan-out loop cut after two rounds: truncated path
                        ntr = tuple(x for x in ntr if x[0] not in fan)
                        rtrace = tuple(x for x in rtrace if x[0] not in fan)
                    if ntr != tuple(rtrace):
                        report("%s after %s" % ({"C": "completion", "E": "error"}[role], _shape(hist)),
                               "%s: when the source %s after %s, the operator does %s; its definition says %s"
                               % (name, {"C": "completes", "E": "fails"}[role], _hist(hist), _fmt(ntr), _fmt(rtrace)),
                               impl.S[role].b)
                if fan and not saw_fan:
                    report("%s after %s: groups not told" % ({"C": "completion", "E": "error"}[role], _shape(hist)),
                           "%s: when the source %s, the open groups are not %s" % (name, {"C": "completes", "E": "fails"}[role],
                                                                                     {"C": "completed", "E": "failed"}[role]), impl.S[role].b)
            if depth == DEPTH:
                continue
            domains = [tuple(range(len(impl.S["N"]._item_variants() or ()))) if s_ == "in:variant" else (False, True) for s_ in nsyms]
            for combo in product(*domains):
                inputs = dict(zip(nsyms, combo))
                base = _map_inputs(ref, nsyms, combo)
                # every valuation of the reference's inputs consistent with what the implementation asked
                free = [k for k in ref.inputs if k not in base and k != "variant"]
                if "variant" in ref.inputs and "variant" not in base:
                    base["variant"] = None
                ref_inputs = []
                for vals in product((False, True), repeat=len(free)):
                    d2 = dict(base)
                    d2.update(zip(free, vals))
                    if d2.get("lt") and d2.get("gt"):
                        continue                  # an item is not both smaller and greater
                    ref_inputs.append(d2)
                if not ref_inputs:
                    continue
                outs = impl.run("N", state, inputs, ref.extra)
                if not outs:
                    raise Undecided("no feasible item path in state %s" % (state,))
                for rinp in ref_inputs:
                    rtrace, rst2, rdone = ref.next(rst, rinp)
                    accept = [tuple(a) for a in rtrace] if isinstance(rtrace, ANY_OF) else [tuple(rtrace)]
                    label = ",".join("%s=%s" % (k, str(v).lower()) for k, v in sorted(rinp.items())) or "item"
                    for (ntr, raw, ns, p) in outs:
                        steps += 1
                        if ntr not in accept:
                            report("item step %s" % _shape(hist + (label,)),
                                   "%s: on an item with %s after %s the operator does %s; its definition says %s "
                                   "(extracted transition: guard %s)"
                                   % (name, label or "any value", _hist(hist), _fmt(ntr), " or ".join(_fmt(a) for a in accept),
                                      " && ".join(_show_b(x) for x in p.pc) or "true"), hb)
                            continue
                        if rdone:
                            continue
                        key = (ns, rst2)
                        if key not in seen:
                            seen.add(key)
                            nxt.append((key, hist + (label,)))
        frontier = nxt
        if not frontier:
            break
    return steps


def _hist(h):
    return "no items" if not h else "items [" + "; ".join(h) + "]"


def _shape(h):
    # a stable, short key for the kind of deviation (no line numbers, no symbols)
    return "/".join(h[-2:]) if h else "start"


# ---------------------------------------------------------------------------- creation functions
import re as _re

CREATORS = {
    # public fn -> (regex for a path taken while the subscriber stays subscribed, regex for a path on which it has left,
    #               effects at least one live path must show).  Loops are cut after two rounds (`loop`).
    "observables::just::just": (r"^emit\(captured\) complete$", None, ["emit(captured)", "complete"]),
    "observables::empty::empty": (r"^complete$", None, ["complete"]),
    "observables::never::never": (r"^$", None, []),
    "observables::error::error": (r"^error$", None, ["error"]),
    "observables::start::start": (r"^user_fn\(\(\)\) emit\(mapped\) complete$", None, ["emit(mapped)", "complete"]),
    "observables::defer::defer": (r"^user_fn\(\(\)\) subscribe\(mapped\)$", None, ["subscribe(mapped)"]),
    "observables::from_iter::from_iter": (r"^(emit\(\w+\) )*(complete|loop)$", r"^(complete)?$", ["emit", "complete"]),
    "observables::range::range": (r"^(emit\(\w+\) )*(complete|loop)$", r"^(complete)?$", ["emit", "complete"]),
    "observables::repeat::repeat": (r"^(emit\(captured\) )+loop$", r"^$", ["emit(captured)"]),
    # time-based sources emit from the task they post to their scheduler
    "observables::interval::interval": (r"^(emit\([\w:]+\) )*(emit\([\w:]+\)|loop)?$", r"^$", ["emit"]),
    "observables::timer::timer": (r"^emit\([\w:]+\) complete$", None, ["emit", "complete"]),
}
POSTED = ("observables::interval::interval", "observables::timer::timer")


def creators_rule(P, E, H):
    r = RuleResult("SRC", "creation functions: every path of the per-subscribe body performs exactly the emissions / terminal the "
                          "function's definition lists, in that order, and stops emitting once the subscriber has left")
    found = set()
    for c in E.sites["create"]:
        cl = c.arg_closure(0)
        sb = P.bodies.get(cl) if cl else None
        if sb is None:
            continue
        root = norm(sb.root)
        if root not in CREATORS or root in found:
            continue
        found.add(root)
        rx_live, rx_dead, need = CREATORS[root]
        try:
            if root in POSTED:
                task = None
                for k in sb.calls:
                    if atom(k) == "post":
                        tcl = k.arg_closure(1)
                        task = P.bodies.get(tcl) if tcl else None
                if task is None:
                    raise Undecided("no task posted to the scheduler")
                up = None
                for u in task.upvars:
                    parent, provs = P.upvar_origin(task, u["idx"])
                    if parent is not None and parent.id == sb.id and all(t[0] == "param" and t[1] == 2 for t in provs):
                        up = u["idx"]
                if up is None:
                    raise Undecided("the posted task does not capture the subscriber")
                S = Summary(P, E, task, item_param=99, item_kind="none", sink_upvar=up)
                body = task
            else:
                S = Summary(P, E, sb, item_param=99, item_kind="none", sink_param=2)
                body = sb
        except Undecided as e:
            r.error("SRC: %s not decidable: %s" % (root, e))
            continue
        seen_fx = set()
        from rules_count import ev_bool
        for p in S.paths:
            tr = []
            for x in p.trace:
                if x[0] == "sink_next":
                    tr.append("emit(%s)" % x[1])
                elif x[0] in ("sink_complete", "sink_complete_force"):
                    tr.append("complete")
                elif x[0] == "sink_error":
                    tr.append("error")
                elif x[0] in ("user_fn", "subscribe"):
                    tr.append("%s(%s)" % (x[0], x[1]))
                elif x[0] in ("loop", "panic", "opaque"):
                    tr.append(x[0])
            line = " ".join(tr)
            for live in (True, False):
                sig = {"in:live": live}
                try:
                    if not all(ev_bool(e, sig) for e in p.pc):
                        continue
                except (KeyError, Undecided):
                    r.error("SRC: %s: a branch depends on something the abstraction does not model" % root)
                    continue
                rx = rx_live if (live or rx_dead is None) else rx_dead
                if root == "observables::interval::interval":
                    # interval numbers its ticks 0, 1, 2, ..: the i-th emission of a path carries i
                    nums = [x[2] if len(x) > 2 else None for x in p.trace if x[0] == "sink_next"]
                    if any(v_ is None for v_ in nums):
                        raise_und = "interval emits a value the abstraction cannot number"
                        r.instance((root, "tick numbering"), False, "not decided: " + raise_und)
                    elif nums != list(range(len(nums))):
                        r.violate((root, "creation", "tick numbering"),
                                  "interval: a path emits the tick numbers %s; its definition is 0, 1, 2, .. (one more per period)" % nums, body=body)
                if live:
                    for t_ in tr:
                        seen_fx.add(t_)
                        seen_fx.add(t_.split("(")[0])
                if not _re.match(rx, line):
                    r.violate((root, "creation", ("subscribed: " if live else "left: ") + (_re.sub(r"\d+", "N", line) or "nothing")),
                              "%s: while the subscriber %s, a path of its per-subscribe code does [%s], which its definition does not allow"
                              % (root.split("::")[-1], "stays subscribed" if live else "has left", line), body=body)
        for n_ in need:
            if n_ not in seen_fx:
                r.violate((root, "creation", "never " + n_), "%s: no path of its per-subscribe code performs `%s` for a live subscriber" % (root.split("::")[-1], n_), body=body)
        r.instance((root, "creation"), True, "%d paths, effects %s" % (len(S.paths), sorted(seen_fx)))
    for root in CREATORS:
        if root not in found:
            r.error("SRC: anchor missing: Observable::create closure of %s" % root)
    return r


# ---------------------------------------------------------------------------- compositions
def compose_rule(P, E, H):
    """element_at(n) = take(n).last() with n passed through unchanged (the crate's asserted test pins the
    1-based convention); all(p) filters with exactly the negation of p; start_with emits its prefix
    before it subscribes the source."""
    r = RuleResult("D-compose2", "compositions: element_at(n) = take(n).last(); all(p) = filter(!p).take(1) ..; start_with = prefix, then the source")
    # element_at(n) = take(n) then skip(n - 1): the n-th item (1-based) is what is left, a shorter source leaves
    # nothing.  (take(n).last() - the shape this crate had - hands on the LAST item of a shorter source.)
    nb = P.body("operators::element_at::ElementAt::new")
    eb = P.body("operators::element_at::ElementAt::execute")
    if nb is None or eb is None:
        r.error("D-compose2: anchor missing: ElementAt::new / execute")
    else:
        root = "operators::element_at::ElementAt"
        takes = [c for c in nb.calls if c.path.endswith("operators::take::Take::new")]
        skips = [c for c in nb.calls if c.path.endswith("operators::skip::Skip::new")]
        r.instance((root, "take(n)"), True, "%d Take::new, %d Skip::new call(s)" % (len(takes), len(skips)))
        if len(takes) != 1:
            r.violate((root, "not built on take"), "ElementAt::new does not build exactly one Take", body=nb)
        for c in takes:
            prov = nb.operand_prov(c.args[0])
            if prov != frozenset([("param", 1, ())]):
                r.violate((root, "take count is not the index itself"),
                          "element_at(n) must keep the first n items (1-based, as the crate's asserted test pins it): the count handed to "
                          "Take::new is %s, not the parameter unchanged" % sorted(nb.term_name(t) for t in nb.value_sources(prov)), body=nb, line=c.line)
        scope = [eb] + P.descendants(eb)
        lasts = [c for b in scope for c in b.calls if c.local and c.name in ("last", "take_last")]
        r.instance((root, "tail selection"), True, "%d last()/take_last call(s), %d Skip" % (len(lasts), len(skips)))
        if lasts:
            r.violate((root, "selects the last of what take kept"),
                      "element_at(n) ends in last(): for a source with fewer than n items that is the source's last item, not `nothing`",
                      body=eb, line=lasts[0].line)
        elif len(skips) != 1:
            r.violate((root, "not take(n) then skip(n-1)"), "ElementAt does not drop the first n-1 of the n items it keeps", body=nb)
        for c in skips:
            ok = False
            a = c.args[0]
            for t in nb.operand_prov(a):
                if t[0] == "ret":
                    k = nb.call_at(t[1])
                    if k is not None and k.path.split("::")[-1] in ("saturating_sub", "wrapping_sub") and len(k.args) == 2 and \
                            nb.operand_prov(k.args[0]) == frozenset([("param", 1, ())]) and k.args[1].get("int") == 1:
                        ok = True
                if t[0] == "val":
                    rv = nb.blocks[t[1][0]]["stmts"][t[1][1]]["rv"]
                    if rv.get("k") == "binop" and rv.get("op", "").startswith("Sub") and rv["b"].get("int") == 1 and \
                            nb.operand_prov(rv["a"]) == frozenset([("param", 1, ())]):
                        ok = True
                if t[0] == "agg" or (t[0] == "val" and not ok):
                    # count - 1 through the checked-subtraction tuple
                    for leaf in nb.value_sources([t]):
                        pass
            if not ok:
                # `count - 1` in a debug build: (SubWithOverflow(count, 1)).0
                leaves = nb.value_sources(nb.operand_prov(a))
                consts = [l for l in leaves if l[0] == "const"]
                params = [l for l in leaves if l[0] == "param" and l[1] == 1]
                ok = len(params) == 1 and len([l for l in leaves if l[0] not in ("const", "param")]) == 0 and \
                    any(str(cn[1]).startswith("1_") or str(cn[1]) == "1" for cn in consts)
            if not ok:
                r.violate((root, "skip count is not n - 1"), "element_at(n) must drop exactly n - 1 of the first n items", body=nb, line=c.line)
    # all: the closure handed to Filter::new returns the negation of the user's predicate
    ab = P.body("operators::all::All::new")
    if ab is None:
        r.error("D-compose2: anchor missing: All::new")
    else:
        cls = [c.arg_closure(0) for c in ab.calls if c.path.endswith("operators::filter::Filter::new")]
        cls = [P.bodies[c] for c in cls if c in P.bodies]
        r.instance(("operators::all::All", "filter(!p)"), True, "%d filter predicate closure(s)" % len(cls))
        if len(cls) != 1:
            r.violate(("operators::all::All", "not built on filter"), "All::new does not build exactly one Filter from a closure", body=ab)
        for cb in cls:
            S = Summary(P, E, cb, item_param=2, item_kind="item")
            for p_ in S.paths:
                ret = p_.env.get(0)
                ok = False
                for val in (False, True):
                    try:
                        from rules_count import ev_bool
                        sig = {"in:pred": val}
                        if not all(ev_bool(e, sig) for e in p_.pc):
                            continue
                        ok = is_bool(ret) and ev_bool(ret, sig) == (not val)
                        if not ok:
                            r.violate(("operators::all::All", "filter predicate is not the negation"),
                                      "all(p) looks for a counter-example: its filter must pass exactly the items for which p is false; "
                                      "for p = %s the closure returns %s" % (str(val).lower(), _show_b(ret) if is_bool(ret) else "an unmodelled value"), body=cb)
                    except (KeyError, Undecided):
                        r.violate(("operators::all::All", "filter predicate is not the negation"), "the closure's result is not a function of p alone", body=cb)
    # start_with: prefix first, then subscribe
    sw = None
    for c in E.sites["create"]:
        cl = c.arg_closure(0)
        sb = P.bodies.get(cl) if cl else None
        if sb is not None and H.type_root(sb) == "operators::start_with::StartWith":
            sw = sb
    if sw is None:
        r.error("D-compose2: anchor missing: StartWith source closure")
    else:
        S = Summary(P, E, sw, item_param=99, item_kind="none", sink_param=2)
        saw_emit = saw_sub = False
        from rules_count import ev_bool
        for p_ in S.paths:
            tr = [x[0] for x in p_.trace if x[0] in ("sink_next", "subscribe", "sink_complete", "sink_error", "loop")]
            feas = {}
            for live in (True, False):
                try:
                    feas[live] = all(ev_bool(e, {"in:live": live}) for e in p_.pc)
                except (KeyError, Undecided):
                    feas[live] = True
            if feas[False] and not feas[True] and ("sink_next" in tr or "subscribe" in tr):
                r.violate(("operators::start_with::StartWith", "acts only after the subscriber left"),
                          "start_with emits its prefix / subscribes the source only on the edge where the subscriber has already left", body=sw)
            if not feas[True]:
                continue
            if "subscribe" in tr:
                saw_sub = True
                if "sink_next" in tr[tr.index("subscribe"):] or tr.count("subscribe") > 1:
                    r.violate(("operators::start_with::StartWith", "prefix after the source"), "start_with emits prefix items after subscribing the source", body=sw)
            if "sink_next" in tr:
                saw_emit = True
            if "sink_complete" in tr or "sink_error" in tr:
                r.violate(("operators::start_with::StartWith", "terminates by itself"), "start_with's own body terminates the subscriber", body=sw)
        # the subscriber is re-checked AFTER the last prefix item: every path from an emission to the subscription of the source passes
        # an is_subscribed() test (a downstream that finished exactly on the last prefix item - start_with(1..=3).take(3) - must not
        # get the source subscribed on its behalf)
        emits = [k for k in sw.calls if atom(k) in ("obs_next", "sink_next")]
        subsc = [k for k in sw.calls if atom(k) == "subscribe"]
        gates_ = [k.bb for k in sw.calls if atom(k) == "is_subscribed"]
        for e_ in emits:
            for s_ in subsc:
                if e_.target is None:
                    continue
                pth = Effects.path_avoiding(sw, [s_.bb], gates_, start=e_.target)
                if pth is not None:
                    r.violate(("operators::start_with::StartWith", "source subscribed without re-checking the subscriber"),
                              "start_with can go from emitting a prefix item to subscribing the source without asking is_subscribed() in "
                              "between: a subscriber that finished on the last prefix item gets the source started on its behalf, and nothing "
                              "ever stops it", body=sw, line=s_.line)
                    break
        r.instance(("operators::start_with::StartWith", "prefix then source"), True, "%d paths" % len(S.paths))
        if not (saw_emit and saw_sub):
            r.violate(("operators::start_with::StartWith", "prefix or source missing"), "start_with must emit its prefix and then subscribe the source", body=sw)
    return r


# ---------------------------------------------------------------------------- gated combinators (C03)
class GateRef:
    init = None
    extra = ()

    def step(self, st, ev):
        """-> (trace, state', done)"""
        raise NotImplementedError


class GTakeUntil(GateRef):
    init = ()

    def step(self, st, ev):
        return {"S.N": ((("emit", "item"),), st, False), "S.E": ((("error",),), st, True), "S.C": ((("complete",),), st, True),
                "T.N": ((("complete",),), st, True), "T.E": ((("error",),), st, True), "T.C": ((), st, False)}[ev]


class GSkipUntil(GateRef):
    """the trigger's first item opens the gate AND releases the trigger (its later events - an error in particular - no longer
    concern the stream: step() answers None for events of a released trigger, they cannot occur)"""
    init = False
    extra = ("abort",)

    def step(self, st, ev):
        if ev == "S.N":
            return ((("emit", "item"),) if st else ()), st, False
        if ev.startswith("T.") and st:
            return None
        if ev == "T.N":
            return (("abort",),), True, False
        return {"S.E": ((("error",),), st, True), "S.C": ((("complete",),), st, True),
                "T.E": ((("error",),), st, True), "T.C": ((), st, False)}[ev]


class GSample(GateRef):
    init = False                      # holds an unsampled item?
    extra = ("remember",)

    def step(self, st, ev):
        if ev == "S.N":
            return (("remember", "item"),), True, False
        if ev == "T.N":
            return ((("emit", "stored"),) if st else ()), False, False
        return {"S.E": ((("error",),), st, True), "S.C": ((("complete",),), st, True),
                "T.E": ((("error",),), st, True), "T.C": ((), st, False)}[ev]


class GSwitchOnNext(GateRef):
    """this crate's switch_on_next(target): mirror the source until the target emits its first item, the target from then on"""
    init = False
    extra = ("set_flag", "abort")  # the switch is published before the target's item goes out: a source item arriving while that
                                   # item is being delivered (re-entrantly, or from another thread) is already muted; after the
                                   # switch the source is released as soon as it shows itself again (its events cannot occur afterwards)

    def step(self, st, ev):
        if isinstance(st, tuple):              # (switched, source released)
            if ev.startswith("S."):
                return None
            st = st[0]
        if ev == "S.N":
            return ((("abort",),), (True, True), False) if st else ((("emit", "item"),), st, False)
        if ev == "T.N":
            return (("set_flag",), ("emit", "item")), True, False
        return {"S.E": ((("error",),), st, True), "T.E": ((("error",),), st, True),
                "S.C": ((("complete",),), st, False), "T.C": ((("complete",),), st, True)}[ev]


GATES = {
    "operators::take_until::TakeUntil": ("take_until", GTakeUntil),
    "operators::skip_until::SkipUntil": ("skip_until", GSkipUntil),
    "operators::sample::Sample": ("sample", GSample),
    "operators::switch_on_next::SwitchOnNext": ("switch_on_next", GSwitchOnNext),
}
GATE_DEPTH = 4


def gates_rule(P, E, H):
    r = RuleResult("GATE", "take_until / skip_until / sample: for every interleaving of source and trigger events up to %d events, "
                           "the six handlers' extracted transitions emit and terminate like the operator's reference machine" % GATE_DEPTH)
    for root, (name, refcls) in sorted(GATES.items()):
        ts = [t for t in H.triples if t["root"] == root]
        trig = [t for t in ts if H.is_trigger_triple(t)]
        src = [t for t in ts if not H.is_trigger_triple(t)]
        if len(trig) != 1 or len(src) != 1:
            # both observers use their payload (switch_on_next): the source is the Observable parameter, the other a field of self
            src = [t for t in ts if "arg" in (t.get("target") or "")]
            trig = [t for t in ts if t not in src]
        if len(trig) != 1 or len(src) != 1:
            r.error("GATE: %s: expected one source and one trigger observer, found %d/%d" % (name, len(src), len(trig)))
            continue
        try:
            S = {}
            for tag, t in (("S", src[0]), ("T", trig[0])):
                for role, kind in (("N", "item"), ("E", "error"), ("C", "none")):
                    hb = t["handlers"].get(role)
                    if hb is None:
                        raise Undecided("%s.%s handler missing" % (tag, role))
                    S["%s.%s" % (tag, role)] = Summary(P, E, hb, item_param=3, item_kind="item" if role == "N" else kind)
            n = _explore_gate(r, S, refcls(), root, name)
            r.instance((root, "gating"), True, "%s: %d event steps explored to depth %d; paths per handler %s"
                       % (name, n, GATE_DEPTH, {k: len(v.paths) for k, v in sorted(S.items())}))
        except Undecided as e:
            r.error("GATE: %s not decidable in the abstraction: %s" % (name, e))
    return r


GATE_FIRST = {"take_until": "trigger", "skip_until": "trigger", "sample": "trigger", "switch_on_next": "source"}


def gate_order_rule(P, E, H):
    """Which of its two inputs a gating operator subscribes first decides what a COLD input does to it: take_until / skip_until /
    sample arm the trigger before they start the source (a trigger that fires at subscribe time - just(()), a BehaviorSubject - or
    from inside the source's synchronous run must already be listening); switch_on_next starts with its source.  Both inputs are
    subscribed unconditionally."""
    r = RuleResult("GATE-ORDER", "take_until / skip_until / sample subscribe the trigger, then the source; switch_on_next the source, then the target; "
                                 "both on every path")
    for c in E.sites["create"]:
        cl = c.arg_closure(0)
        sb = P.bodies.get(cl) if cl else None
        if sb is None:
            continue
        ex = P.bodies.get(sb.root)
        if ex is None or ex.kind != "assoc" or ex.name != "execute":
            continue
        root = H.type_root(ex)
        if root not in GATES:
            continue
        name = GATES[root][0]
        subs = {"source": [], "trigger": []}
        for k in sb.calls:
            if atom(k) != "subscribe" or not k.args:
                continue
            is_src = False
            for t in sb.operand_prov(k.args[0]):
                for g in P.global_cell(sb, t, through_helpers=True):
                    if g[0] == ex.id and g[1] == "param" and g[2] == 2:
                        is_src = True
            subs["source" if is_src else "trigger"].append(k)
        r.instance((root, "input order"), True, "source subscribed at %s, trigger/target at %s" % ([k.bb for k in subs["source"]], [k.bb for k in subs["trigger"]]))
        if len(subs["source"]) != 1 or len(subs["trigger"]) != 1:
            r.error("GATE-ORDER: %s: expected one subscription of the source and one of the trigger in the per-subscribe code, found %d/%d"
                    % (name, len(subs["source"]), len(subs["trigger"])))
            continue
        first, second = (subs["trigger"][0], subs["source"][0]) if GATE_FIRST[name] == "trigger" else (subs["source"][0], subs["trigger"][0])
        dom = sb.dominators()
        if first.bb not in dom[second.bb]:
            r.violate((root, "input order", "wrong input first"),
                      "%s subscribes its %s before its %s: a cold %s that acts at subscribe time (or from inside the other input's synchronous "
                      "run) is not listening yet / has already run" % (name, "source" if GATE_FIRST[name] == "trigger" else "target",
                                                                       GATE_FIRST[name], GATE_FIRST[name]), body=sb, line=second.line)
        for k, what in ((first, "first"), (second, "second")):
            if Effects.path_avoiding(sb, sb.returns, [k.bb]) is not None:
                r.violate((root, "input order", "input subscribed only on some paths"),
                          "%s subscribes its %s input only on some paths of its per-subscribe code" % (name, what), body=sb, line=k.line)
    return r


def _explore_gate(r, S, ref, root, name):
    cells = {}
    for Sm in S.values():
        for g, k in Sm.cellinfo.items():
            if k and k[0] in ("int", "flag", "optcell"):
                pre = {"int": "", "flag": "f:", "optcell": "o:"}[k[0]]
                cells[pre + Sm._sym(g)] = k[1]
    start = (tuple(sorted(cells.items())), ref.init)
    seen = {start}
    frontier = [(start, ())]
    reported = set()
    steps = 0
    for depth in range(GATE_DEPTH):
        nxt = []
        for ((ist, rst), hist) in frontier:
            state = dict(ist)
            for ev in ("S.N", "S.E", "S.C", "T.N", "T.E", "T.C"):
                Sm = S[ev]
                sigma = dict(state)
                sigma.setdefault("in:live", True)
                for s_ in Sm.symbols():
                    if s_ not in sigma:
                        raise Undecided("%s handler consults `%s`, which the abstraction does not model" % (ev, s_))
                outs = Sm.step(sigma, ALPHABET)
                if not outs:
                    raise Undecided("no feasible path for %s in state %s" % (ev, state))
                rstep = ref.step(rst, ev)
                if rstep is None:              # the reference says this input was released: the event cannot occur
                    continue
                rtrace, rst2, rdone = rstep
                for (tr, nx), (p, newcells) in outs.items():
                    steps += 1
                    ntr = _norm_trace(tr, ref.extra)
                    if ntr != tuple(rtrace):
                        kind = "%s after %s" % (ev, "/".join(hist[-2:]) or "start")
                        if kind not in reported:
                            reported.add(kind)
                            r.violate((root, "gating", kind),
                                      "%s: on %s after [%s] the operator does %s; its definition says %s (extracted transition: guard %s)"
                                      % (name, {"S.N": "a source item", "S.E": "a source error", "S.C": "source completion", "T.N": "a trigger item",
                                                "T.E": "a trigger error", "T.C": "trigger completion"}[ev], ", ".join(hist) or "nothing",
                                         _fmt(ntr), _fmt(rtrace), " && ".join(_show_b(x) for x in p.pc) or "true"), body=Sm.b)
                        continue
                    if rdone:
                        continue
                    ns = dict(state)
                    for g, v in newcells.items():
                        ns[Sm.cellsym(g)] = v
                    key = (tuple(sorted(ns.items())), rst2)
                    if key not in seen:
                        seen.add(key)
                        nxt.append((key, hist + (ev,)))
        frontier = nxt
        if not frontier:
            break
    return steps


# ---------------------------------------------------------------------------- amb (C03 / C11)
def serial_first(P, E):
    """the first key StreamController::new_observer hands out: initial value of the serial counter plus what is
    added before the key is taken (read off the HashMap::insert key in the method's summary)"""
    nb = None
    for b in P.bodies.values():
        if b.nid == SCTL + "::new_observer" and b.id not in P.absorbed:
            nb = b
    if nb is None:
        raise Undecided("StreamController::new_observer not found")
    S = Summary(P, E, nb, item_param=99, item_kind="none")
    firsts = set()
    for p in S.paths:
        for n_ in p.note:
            if isinstance(n_, tuple) and n_ and n_[0] == "mapkey":
                v = n_[1]
                if v[1] is None:
                    raise Undecided("upstream key is a constant")
                # the key is (counter at entry) + k
                init = None
                for g, k in S.cellinfo.items():
                    if k and k[0] == "int" and S._sym(g) == v[1]:
                        init = k[1]
                if init is None or isinstance(init, tuple):
                    raise Undecided("upstream key does not derive from the serial counter")
                firsts.add(init + v[2])
    if len(firsts) != 1:
        raise Undecided("first upstream key not unique: %s" % sorted(firsts))
    return firsts.pop()


def amb_rule(P, E, H):
    """amb mirrors only the first input to signal: explored for two inputs with every pair of distinct keys the
    StreamController can hand out, every interleaving of their events up to AMB_DEPTH."""
    r = RuleResult("AMB", "amb: the first input to signal wins; every event of the winner is mirrored, every other input is cut")
    root = "operators::amb::Amb"
    ts = [t for t in H.triples if t["root"] == root]
    if len(ts) != 1:
        r.error("AMB: expected one handler triple in %s, found %d" % (root, len(ts)))
        return r
    t = ts[0]
    try:
        first = serial_first(P, E)
        S = {}
        for role, kind in (("N", "item"), ("E", "error"), ("C", "none")):
            S[role] = Summary(P, E, t["handlers"][role], item_param=3, item_kind=kind, serial_param=2)
        cells = {}
        for Sm in S.values():
            for g, k in Sm.cellinfo.items():
                if k and k[0] in ("int", "flag", "optcell"):
                    if isinstance(k[1], tuple):
                        raise Undecided("latch initialised from a parameter")
                    cells[Sm.cellsym(g)] = k[1]
        keys = [first, first + 1, first + 2]
        steps = 0
        reported = set()
        for (ka, kb) in [(x, y) for x in keys for y in keys if x != y]:
            start = (tuple(sorted(cells.items())), None)
            seen = {start}
            frontier = [(start, ())]
            for depth in range(4):
                nxt = []
                for ((ist, win), hist) in frontier:
                    state = dict(ist)
                    win, cut = (win if isinstance(win, tuple) else (win, frozenset()))
                    for who, key in (("a", ka), ("b", kb)):
                        if who in cut:
                            continue          # a loser that has been cut is unsubscribed: it cannot signal again
                        for role in ("N", "E", "C"):
                            Sm = S[role]
                            sigma = dict(state)
                            sigma["in:serial"] = key
                            sigma.setdefault("in:live", True)
                            for s_ in Sm.symbols():
                                if s_.startswith("ov:") and s_ not in sigma:
                                    sigma[s_] = -12345      # payload of an empty Option: never read on a feasible path
                            for s_ in Sm.symbols():
                                if s_ not in sigma:
                                    raise Undecided("%s handler consults `%s`, which the abstraction does not model" % (role, s_))
                            outs = Sm.step(sigma, ALPHABET)
                            if not outs:
                                raise Undecided("no feasible path for %s of input %s" % (role, who))
                            w2 = win or who
                            mirrored = (w2 == who)
                            # a loser is cut (its own upstream aborted) the moment it shows itself - "at the latest when it next tries to emit"
                            want = {"N": (("emit", "item"),), "E": (("error",),), "C": (("complete",),)}[role] if mirrored else (("abort",),)
                            done_ = mirrored and role in ("E", "C")
                            for (tr, nx), (p, newcells) in outs.items():
                                steps += 1
                                ntr = _norm_trace(tr, ("abort",))
                                if ntr != want:
                                    kind = "%s of %s after %s" % (role, "the winner" if mirrored else "a loser", "/".join(hist[-2:]) or "start")
                                    if kind not in reported:
                                        reported.add(kind)
                                        r.violate((root, "mirroring", kind),
                                                  "amb with upstream keys a=%d, b=%d: on %s of input %s after [%s] (winner so far: %s) the operator does %s; "
                                                  "its definition says %s (extracted transition: guard %s)"
                                                  % (ka, kb, {"N": "an item", "E": "an error", "C": "completion"}[role], who, ", ".join(hist) or "nothing",
                                                     win or "none", _fmt(ntr), _fmt(want), " && ".join(_show_b(x) for x in p.pc) or "true"), body=Sm.b)
                                    continue
                                if done_:
                                    continue
                                ns = dict(state)
                                for g, v in newcells.items():
                                    ns[Sm.cellsym(g)] = v
                                key2 = (tuple(sorted(ns.items())), (w2, cut if mirrored else cut | {who}))
                                if key2 not in seen:
                                    seen.add(key2)
                                    nxt.append((key2, hist + ("%s.%s" % (who, role),)))
                frontier = nxt
                if not frontier:
                    break
        r.instance((root, "mirroring"), True, "first upstream key %d; %d event steps over %d key pairs, depth 4; latch cells %s"
                   % (first, steps, len(keys) * (len(keys) - 1), sorted(cells)))
    except Undecided as e:
        r.error("AMB: not decidable in the abstraction: %s" % e)
    return r


# ---------------------------------------------------------------------------- sequence_equal (C03)
def seq_equal_rule(P, E, H):
    """sequence_equal built on zip: zip drops the unmatched tail of a longer input, so a `true` on completion
    is only justified if the end of every sequence is itself an element of what is zipped (an end mark) - which
    needs a zipped element type with room for it - or if the completion verdict depends on further state."""
    r = RuleResult("SEQ-EQ", "sequence_equal: a difference in length cannot hide behind zip (end-marked inputs or a completion "
                             "verdict that depends on state)")
    root = "operators::sequence_equal::SequenceEqual"
    a = P.adts.get(root)
    ts = [t for t in H.triples if t["root"] == root]
    if a is None or len(ts) != 1:
        r.error("SEQ-EQ: anchor missing: struct SequenceEqual / its handler triple")
        return r
    zips = []

    def walk(t, depth=0):
        if not isinstance(t, dict) or depth > 8:
            return
        if t.get("k") == "adt" and norm(t.get("path") or "") == "operators::zip::Zip":
            zips.append(t)
        for x in t.get("args") or []:
            walk(x, depth + 1)
        walk(t.get("inner"), depth + 1)
    for f in a["variants"][0]["fields"]:
        walk(f["ty"])
    uses_zip = bool(zips) or any(c.path.startswith("operators::zip::") for b in P.bodies.values()
                                 if H.type_root(b) == root for c in b.calls)
    if not uses_zip:
        r.instance((root, "not built on zip"), False)
        return r
    bare = [z for z in zips if any(x.get("k") == "param" for x in (z.get("args") or []))]
    try:
        S = Summary(P, E, ts[0]["handlers"]["C"], item_kind="none")
    except Undecided as e:
        r.error("SEQ-EQ: completion handler not decidable: %s" % e)
        return r
    # the row test: `all` over the row with a closure that answers `element == first`
    nb_ = ts[0]["handlers"].get("N")
    if nb_ is not None:
        alls = [c for c in nb_.calls if c.path in ("std::iter::Iterator::all", "std::iter::Iterator::any")]
        for c in alls:
            for tg in E.inline_targets(c):
                try:
                    Sc = Summary(P, E, tg, item_param=2, item_kind="item")
                except Undecided:
                    continue
                for p_ in Sc.paths:
                    ret = p_.env.get(0)
                    r.instance((root, "row test"), True, "closure of %s returns %s" % (c.path.split("::")[-1], _show_b(ret) if is_bool(ret) else ret))
                    want_eq = c.path.endswith("::all")
                    ok = is_bool(ret) and ((ret[0] == "bvar" and ret[1].startswith("in:eq") and want_eq) or
                                           (ret[0] == "not" and ret[1][0] == "bvar" and ret[1][1].startswith("in:eq") and not want_eq))
                    if not ok:
                        r.violate((root, "row test is not element == first"),
                                  "sequence_equal's row test hands %s a closure that does not answer `%s`"
                                  % (c.path.split("::")[-1], "element == first" if want_eq else "element != first"), body=tg)
    uncond_true = [p for p in S.paths if not [e for e in p.pc] and any(x[0] == "sink_next" and x[1] == "const:true" for x in p.trace)]
    r.instance((root, "zip element type"), True, "zip types %s; unconditional `true` on completion: %s"
               % ([z.get("s") for z in zips], bool(uncond_true)))
    if bare and uncond_true:
        r.violate((root, "length difference invisible"),
                  "sequence_equal zips its inputs as bare items (%s) and answers `true` unconditionally when the zip completes; zip drops "
                  "the unmatched tail of a longer input, so [1,2,3] vs [1,2] (and [] vs [1]) is reported equal"
                  % bare[0].get("s"), body=S.b)
    return r


# ---------------------------------------------------------------------------- Behavior / Replay / Async subjects (C10)
def _method_summary(P, E, nid, kind):
    b = None
    for x in P.bodies.values():
        if x.nid == nid and x.id not in P.absorbed:
            b = x
    if b is None:
        raise Undecided("method %s not found" % nid)
    return Summary(P, E, b, item_param=2, item_kind=kind)


def _strs(tr, keep):
    out = []
    for x in tr:
        if x[0] in keep:
            out.append(x[0] if len(x) == 1 else "%s(%s)" % (x[0], x[1]))
    return out


def subjects_rule(P, E, H):
    """What Behavior / Replay / Async subjects record and hand over, decided on the summaries of their methods and of the
    per-subscribe hand-over code, for every recorded state."""
    r = RuleResult("SUBJ", "Behavior / Replay / Async subjects: every event is recorded and broadcast as defined, and a new subscriber is "
                           "handed exactly the recorded state (latest value or stored terminal; the whole history, then the stored terminal)")
    KEEP = ("remember", "push_back", "window_next", "window_error", "window_complete", "clear", "take_all", "sink_next", "sink_error",
            "sink_complete", "subscribe", "panic", "opaque", "loop",
            # every other way of changing the recorded history is part of what the emitter does
            "push_front", "pop_front", "pop_back", "cont_replace", "cont_truncate", "cont_drain", "cont_retain", "cont_remove", "cont_insert",
            "cont_append", "cont_extend", "cont_split_off", "cont_resize", "cont_swap_remove")
    BS, RS, AS = ("subjects::behavior_subject::BehaviorSubject", "subjects::replay_subject::ReplaySubject",
                  "subjects::async_subject::AsyncSubject")

    def expect(owner, meth, want, cells_want=None):
        try:
            S = _method_summary(P, E, "%s::%s" % (owner, meth), {"next": "item", "error": "error", "complete": "none"}[meth])
        except Undecided as e:
            r.error("SUBJ: %s" % e)
            return
        r.instance((owner, meth), True, "%d path(s)" % len(S.paths))
        for p_ in S.paths:
            got = _strs(p_.trace, KEEP)
            if got != want:
                r.violate((owner, meth, "records/broadcasts differently"),
                          "%s::%s does %s; its definition says %s" % (owner.split("::")[-1], meth, got, want), body=S.b)
            if cells_want is not None:
                written = [g for g, v in p_.cells.items() if (S.cellinfo.get(g) or ("?",))[0] in ("flag", "optcell") and not (isinstance(g, tuple) and len(g) == 2 and g[1] == "val")]
                if len(written) != len(cells_want):
                    r.violate((owner, meth, "records more than its own state"),
                              "%s::%s writes %d recorded-state cells, its definition writes %d: it clobbers state another event recorded "
                              "(a stored error erased by a later complete)" % (owner.split("::")[-1], meth, len(written), len(cells_want)), body=S.b)
            for (kind, val) in (cells_want or []):
                ok = False
                for g, v in p_.cells.items():
                    k = S.cellinfo.get(g)
                    if k and k[0] == kind and v == val:
                        ok = True
                if not ok:
                    r.violate((owner, meth, "state not updated"),
                              "%s::%s does not leave its %s cell %s" % (owner.split("::")[-1], meth, kind, "set" if val == ("bconst", True) else "cleared"), body=S.b)

    T, F = ("bconst", True), ("bconst", False)
    expect(BS, "next", ["remember(item)", "window_next(item)"])
    expect(BS, "error", ["remember(error)", "window_error"])
    expect(BS, "complete", ["window_complete"], [("optcell", F)])
    expect(RS, "next", ["push_back(item)", "window_next(item)"])
    expect(RS, "error", ["remember(error)", "window_error"])
    expect(RS, "complete", ["window_complete"], [("flag", T)])
    expect(AS, "next", ["window_next(item)"])
    expect(AS, "error", ["window_error"])
    expect(AS, "complete", ["window_complete"])

    # ---- BehaviorSubject hand-over: the per-subscribe closure
    from rules_subject import source_closure_of
    src = source_closure_of(P, BS + "::observable")
    if src is None:
        r.error("SUBJ: anchor missing: BehaviorSubject::observable source closure")
    else:
        try:
            S = Summary(P, E, src, item_param=99, item_kind="none", sink_param=2)
            cells = {}
            for g, k in S.cellinfo.items():
                if k and k[0] == "optcell" and g[1] == "param" and g[3]:      # the subject's own fields
                    cells[S.cellsym(g)] = (g, k)
            if len(cells) != 2:
                raise Undecided("expected the latest-item and the stored-error cell, found %d option cells" % len(cells))
            # which is which: the cell BehaviorSubject::new fills is the item cell
            item_sym = [sy for sy, (g, k) in cells.items() if k[1] is True]
            err_sym = [sy for sy, (g, k) in cells.items() if k[1] is False]
            if len(item_sym) != 1 or len(err_sym) != 1:
                raise Undecided("cannot tell the item cell from the error cell")
            n = 0
            for has_item in (False, True):
                for has_err in (False, True):
                    sigma = {item_sym[0]: has_item, err_sym[0]: has_err, "in:live": True}
                    for s_ in S.symbols():
                        sigma.setdefault(s_, 0)
                    outs = S.step(sigma, ALPHABET | {"sink_next", "sink_error", "sink_complete", "subscribe"})
                    if not outs:
                        raise Undecided("no feasible hand-over path")
                    attach = False
                    for (tr, nx), (p_, c_) in outs.items():
                        n += 1
                        got = _strs(tr, ("sink_next", "sink_error", "sink_complete", "subscribe", "panic", "opaque"))
                        if has_err:
                            ok = got == ["sink_error"]
                            want = "['sink_error'] (the stored error, nothing else)"
                        elif has_item:
                            ok = got in (["sink_next(stored)"], ["sink_next(stored)", "subscribe(mapped)"], ["sink_next(stored)", "subscribe(other)"]) or \
                                (len(got) == 2 and got[0] == "sink_next(stored)" and got[1].startswith("subscribe("))
                            attach = attach or len(got) == 2
                            want = "the latest value, then the attach to the live subject"
                        else:
                            ok = got == ["sink_complete"]
                            want = "['sink_complete'] (the subject has completed)"
                        if not ok:
                            r.violate((BS, "hand-over", "item=%s,error=%s" % (has_item, has_err)),
                                      "BehaviorSubject with %s%s hands a new subscriber %s; its definition says %s"
                                      % ("a latest value" if has_item else "no value", " and a stored error" if has_err else "", got, want), body=src)
                    if has_item and not has_err and not attach:
                        r.violate((BS, "hand-over", "never attaches"), "a new subscriber of a live BehaviorSubject is never attached to it", body=src)
            r.instance((BS, "hand-over"), True, "%d guarded paths over the 4 recorded states" % n)
        except Undecided as e:
            r.error("SUBJ: BehaviorSubject hand-over not decidable: %s" % e)

    # ---- ReplaySubject hand-over: the action ready_set_go runs after the relay is subscribed
    rsrc = source_closure_of(P, RS + "::observable")
    act = None
    if rsrc is not None:
        for c in rsrc.calls:
            if atom(c) == "ready_set_go":
                cl = c.arg_closure(0)
                act = P.bodies.get(cl) if cl else None
    if act is None:
        r.error("SUBJ: anchor missing: ReplaySubject replay action (ready_set_go)")
    else:
        try:
            up = None
            for u in act.upvars:
                parent, provs = P.upvar_origin(act, u["idx"])
                if parent is not None and all(t[0] == "param" and t[1] == 2 for t in provs) and parent.id == rsrc.id:
                    up = u["idx"]
            if up is None:
                raise Undecided("the replay action does not capture the subscriber")
            S = Summary(P, E, act, item_param=99, item_kind="none", sink_upvar=up)
            optc = [S.cellsym(g) for g, k in S.cellinfo.items() if k and k[0] == "optcell" and g[1] == "param" and g[3]
                    and norm(g[0]).startswith("subjects::replay_subject::")]
            flg = [S.cellsym(g) for g, k in S.cellinfo.items() if k and k[0] == "flag" and g[1] == "param" and g[3]
                   and norm(g[0]).startswith("subjects::replay_subject::")]
            if len(optc) != 1 or len(flg) != 1:
                raise Undecided("expected one stored-error cell and one completed flag, found %d/%d" % (len(optc), len(flg)))
            n = 0
            replays = False
            for has_err in (False, True):
                for done in (False, True):
                    sigma = {optc[0]: has_err, flg[0]: done, "in:live": True}
                    for s_ in S.symbols():
                        sigma.setdefault(s_, 1)
                    outs = S.step(sigma, ALPHABET | {"sink_next", "sink_error", "sink_complete"})
                    if not outs:
                        raise Undecided("no feasible replay path")
                    for (tr, nx), (p_, c_) in outs.items():
                        n += 1
                        got = _strs(tr, ("sink_next", "sink_error", "sink_complete", "panic", "opaque", "reversed"))
                        if any(x[0] == "loop" for x in p_.trace):
                            replays = replays or any(x.startswith("sink_next") for x in got)
                            continue          # a replay loop cut after two rounds: the path is truncated, judged by its full siblings
                        items = [x for x in got if x.startswith("sink_next")]
                        rest = [x for x in got if not x.startswith("sink_next")]
                        replays = replays or bool(items)
                        want = ["sink_error"] if has_err else (["sink_complete"] if done else [])
                        if rest != want or (items and got[:len(items)] != items):
                            r.violate((RS, "hand-over", "error=%s,completed=%s" % (has_err, done)),
                                      "ReplaySubject with %s hands a new subscriber %s; its definition says the history, then %s"
                                      % ("a stored error" if has_err else ("a stored completion" if done else "no terminal"), got, want or "nothing"), body=act)
            if not replays:
                r.violate((RS, "hand-over", "history not replayed"), "the replay action never hands the recorded items to the subscriber", body=act)
            r.instance((RS, "hand-over"), True, "%d guarded paths over the 4 recorded terminal states" % n)
        except Undecided as e:
            r.error("SUBJ: ReplaySubject hand-over not decidable: %s" % e)
    return r


# ---------------------------------------------------------------------------- identity handlers
PASS_THROUGH = {
    # type root -> which of its observers must forward every item unchanged (origin kind of what they observe, or None = all)
    "operators::merge::Merge": None,
    "operators::concat::Concat": None,
    "operators::retry::Retry": None,
    "operators::retry_when::RetryWhen": None,
    "operators::on_error_resume_next::OnErrorResumeNext": None,
    "operators::subscribe_on::SubscribeOn": None,
    "operators::first::First": None,
    "operators::last::Last": None,
    "operators::flat_map::FlatMap": "call",          # the observer of an inner observable
    "operators::timeout::Timeout": "arg",
    "operators::delay::Delay": None,
}


def forward_rule(P, E, H):
    r = RuleResult("H-next-forward", "observers whose operator is the identity on items hand every item on, unchanged, exactly once")
    seen = set()
    for t in H.triples:
        root = t["root"]
        if root not in PASS_THROUGH:
            continue
        want = PASS_THROUGH[root]
        if want is not None and want not in (t.get("target") or ""):
            continue
        hb = t["handlers"].get("N")
        if hb is None or hb.id in seen:
            continue
        seen.add(hb.id)
        try:
            S = Summary(P, E, hb)
        except Undecided as e:
            r.error("H-next-forward: %s not decidable: %s" % (root, e))
            continue
        key = H.key(hb)
        r.instance(key, True, "%d path(s)" % len(S.paths))
        for p_ in S.paths:
            em = [x for x in p_.trace if x[0] == "sink_next"]
            term = [x for x in p_.trace if x[0] in ("sink_complete", "sink_complete_force", "sink_error")]
            if len(em) != 1 or em[0][1] != "item" or term:
                r.violate(key + ("item not forwarded",),
                          "an item handler of %s does %s on some path; the operator is the identity on items: exactly one "
                          "sink_next of the handler's own item, no terminal" % (root.split("::")[-1], [x[0] if len(x) == 1 else "%s(%s)" % x for x in p_.trace
                                                                                                if x[0] in ("sink_next", "sink_complete", "sink_complete_force", "sink_error")]),
                          body=hb)
                break
    for root in PASS_THROUGH:
        if not any(t["root"] == root for t in H.triples):
            r.error("H-next-forward: anchor missing: observers of %s" % root)
    return r


# ---------------------------------------------------------------------------- retry / retry_when (C04)
def retry_rule(P, E, H):
    """When does an error resubscribe and when is it forwarded: retry(count) - this crate's convention, pinned by its
    own code and documentation examples, is count = total number of subscriptions, 0 = for ever - and retry_when(p)."""
    r = RuleResult("RETRY", "retry / retry_when: an upstream error resubscribes exactly when the operator's definition says so, "
                            "otherwise it is forwarded")
    from rules_count import ev_bool

    def classify(tr):
        resub = any(x[0] in ("resubscribe", "subscribe") for x in tr)
        err = any(x[0] == "sink_error" for x in tr)
        return resub, err
    for root, name in (("operators::retry::Retry", "retry"), ("operators::retry_when::RetryWhen", "retry_when")):
        ts = [t for t in H.triples if t["root"] == root]
        if not ts:
            r.error("RETRY: anchor missing: observers of %s" % root)
            continue
        hb = ts[0]["handlers"].get("E")
        try:
            S = Summary(P, E, hb, item_param=3, item_kind="error")
            syms = sorted(S.symbols() - {"in:live"})
            if name == "retry_when":
                if syms != ["in:pred"]:
                    raise Undecided("error handler consults %s, expected the predicate only" % syms)
                for pred in (False, True):
                    for (tr, nx), (p_, c_) in S.step({"in:pred": pred}, ALPHABET).items():
                        resub, err = classify(tr)
                        if (resub, err) != ((True, False) if pred else (False, True)):
                            r.violate((root, "retry polarity", "pred=%s" % str(pred).lower()),
                                      "retry_when: when the predicate answers %s the error handler %s; it must %s"
                                      % (str(pred).lower(), "resubscribes" if resub else ("forwards the error" if err else "does nothing"),
                                         "resubscribe" if pred else "forward the error"), body=hb)
                r.instance((root, "retry polarity"), True, "2 predicate outcomes")
            else:
                if len(syms) != 2:
                    raise Undecided("error handler consults %s, expected the attempt number and the limit" % syms)
                ok_map = None
                for (sn, sm) in ((syms[0], syms[1]), (syms[1], syms[0])):
                    good = True
                    for n_ in range(1, 6):
                        for m_ in range(0, 6):
                            want = (m_ == 0 or n_ < m_)
                            for (tr, nx), (p_, c_) in S.step({sn: n_, sm: m_}, ALPHABET).items():
                                resub, err = classify(tr)
                                if (resub, err) != ((True, False) if want else (False, True)):
                                    good = False
                    if good:
                        ok_map = (sn, sm)
                r.instance((root, "retry polarity"), True, "attempts 1..5 x limits 0..5 under both role assignments")
                if ok_map is not None:
                    _retry_progress(P, r, root, hb, ts[0]["site"].body, S, ok_map)
                if ok_map is None:
                    r.violate((root, "retry polarity", "attempt/limit"),
                              "retry(count): no reading of the two captured integers as (attempt, limit) makes the error handler resubscribe exactly "
                              "while attempt < limit (or limit == 0) and forward the error otherwise", body=hb)
        except Undecided as e:
            r.error("RETRY: %s not decidable in the abstraction: %s" % (name, e))
    return r


def _affine_up(b, op, depth=0):
    """an integer operand of closure `b` as ({upvar index: coefficient}, constant); Undecided when it is anything else"""
    if depth > 12:
        raise Undecided("integer expression too deep")
    if op["k"] == "const":
        if "int" in op:
            return {}, int(op["int"])
        raise Undecided("non-integer constant")
    p = op["p"]
    l = p[0]
    proj = [e for e in p[1:] if e != "*"]
    if b.kind == "closure" and l == 1 and len(proj) == 1:
        k = proj[0].lstrip(".").split(":")[0]
        if k.isdigit():
            return {int(k): 1}, 0
    if 1 <= l <= b.argc:
        raise Undecided("integer is a parameter")
    ds = [d for d in b.defs.get(l, []) if not (d[0] == "assign" and len(d[1]["lhs"]) > 1)]
    if len(ds) != 1:
        raise Undecided("integer local with %d definitions" % len(ds))
    d = ds[0]
    if d[0] != "assign":
        t = d[1]
        path = norm(t["fn"].get("path")) if t["fn"]["k"] == "def" else None
        if path in ("std::clone::Clone::clone",) and t["args"]:
            return _affine_up(b, t["args"][0], depth + 1)
        raise Undecided("integer returned by %s" % path)
    rv = d[1]["rv"]
    if rv["k"] == "use" and not proj:
        return _affine_up(b, rv["op"], depth + 1)
    if rv["k"] == "ref":
        return _affine_up(b, {"k": "copy", "p": rv["p"]}, depth + 1)
    if rv["k"] == "cast":
        return _affine_up(b, rv["op"], depth + 1)
    if rv["k"] == "binop" and proj in ([], [".0"]) and rv["op"].startswith(("Add", "Sub")):
        (xa, xk), (ya, yk) = _affine_up(b, rv["a"], depth + 1), _affine_up(b, rv["b"], depth + 1)
        sg = 1 if rv["op"].startswith("Add") else -1
        out = dict(xa)
        for k_, v_ in ya.items():
            out[k_] = out.get(k_, 0) + sg * v_
        return {k_: v_ for k_, v_ in out.items() if v_}, xk + sg * yk
    raise Undecided("integer from %s" % rv["k"])


def _retry_progress(P, r, root, hb, sb, S, ok_map):
    """retry(count): the attempt number starts at 1 and grows by exactly one per resubscription, the limit is handed on unchanged
    (together with `resubscribe iff attempt < limit` this makes `count` the total number of subscriptions).  Read off the places
    where the error handler's own closure is built: once by the per-subscribe code (first attempt), once inside the handler
    (the next attempt)."""
    sn, sm = ok_map
    up_of = {}
    for u in hb.upvars:
        for th in (True, False):
            for g in P.global_cell(hb, ("upvar", u["idx"], ()), through_helpers=th):
                if S._sym(g) in (sn, sm):
                    up_of[S._sym(g)] = u["idx"]
    if set(up_of) != {sn, sm}:
        r.instance((root, "retry progress"), False, "not decided: captured attempt / limit not identified")
        return

    def builds(b):
        return [s_["rv"] for i in sorted(b.reach) for s_ in b.blocks[i]["stmts"]
                if s_["k"] == "assign" and s_["rv"]["k"] == "agg" and s_["rv"].get("ak") == "closure" and s_["rv"].get("def") == hb.id]
    nxt, first = builds(hb), (builds(sb) if sb is not None and sb.id != hb.id else [])
    if not nxt or not first:
        r.instance((root, "retry progress"), False, "not decided: the handler's own closure is built %d time(s) in the handler, %d in the per-subscribe code"
                   % (len(nxt), len(first)))
        return
    try:
        for rv in nxt:
            (ca, ck), (la, lk) = _affine_up(hb, rv["ops"][up_of[sn]]), _affine_up(hb, rv["ops"][up_of[sm]])
            r.instance((root, "retry progress", "next attempt"), True, "attempt' = %s%+d, limit' = %s%+d" % (ca, ck, la, lk))
            if ca != {up_of[sn]: 1} or ck != 1:
                r.violate((root, "retry progress", "attempt does not grow by one"),
                          "retry(count): the resubscription made by the error handler numbers the next attempt as %s%+d of its own captures instead "
                          "of attempt+1: the limit is reached too early, too late or never" % (ca, ck), body=hb)
            if la != {up_of[sm]: 1} or lk != 0:
                r.violate((root, "retry progress", "limit changes between attempts"),
                          "retry(count): the limit handed to the next attempt is %s%+d of the handler's captures, not the limit itself" % (la, lk), body=hb)
        for rv in first:
            ca, ck = _affine_up(sb, rv["ops"][up_of[sn]])
            r.instance((root, "retry progress", "first attempt"), True, "attempt = %s%+d" % (ca, ck))
            if ca or ck != 1:
                r.violate((root, "retry progress", "first attempt is not number 1"),
                          "retry(count): the first subscription is numbered %s%+d, not 1: with `resubscribe while attempt < count` the source is "
                          "subscribed %s than count times" % (ca, ck, "more" if not ca and ck < 1 else "fewer"), body=sb)
    except Undecided as e:
        r.instance((root, "retry progress"), False, "not decided: %s" % e)


# ---------------------------------------------------------------------------- counting vs forced completion (C03 / C11)
# With several upstreams alive, `sink_complete(serial)` (leave, complete when the last one left) and `sink_complete_force()` (complete now)
# are different operators.  Which one each input's completion uses is part of the definition C03 states:
COMPLETE_KIND = {
    # root: {input role: completion calls its complete-handler may make}
    "operators::merge::Merge": {"*": {"sink_complete"}},                # completes only after all have completed
    "operators::flat_map::FlatMap": {"*": {"sink_complete"}},           # outer and every inner
    "operators::zip::Zip": {"*": {"sink_complete"}},                    # (this crate: when every input has completed)
    "operators::take_until::TakeUntil": {"source": {"sink_complete_force"}, "trigger": set()},
    "operators::skip_until::SkipUntil": {"source": {"sink_complete_force"}, "trigger": set()},
    "operators::sample::Sample": {"source": {"sink_complete_force"}, "trigger": set()},
    "operators::switch_on_next::SwitchOnNext": {"source": {"sink_complete"}, "trigger": {"sink_complete_force"}},
    "operators::amb::Amb": {"*": {"sink_complete_force"}},              # the winner's completion ends the whole, losers stay registered
}


def complete_kind_rule(P, E, H):
    r = RuleResult("COMPLETE-KIND", "operators with several live upstreams: each input's complete-handler uses the completion its definition "
                                    "names - leave-and-count (sink_complete) or end-now (sink_complete_force)")

    def kinds(hb, depth=0, seen=None):
        seen = seen if seen is not None else set()
        out = set()
        if hb is None or hb.id in seen or depth > 3:
            return out
        seen.add(hb.id)
        for c in hb.calls:
            a = atom(c)
            if a in ("sink_complete", "sink_complete_force"):
                out.add(a)
            for t in E.inline_targets(c):
                out |= kinds(t, depth + 1, seen)
        return out
    for root, table in sorted(COMPLETE_KIND.items()):
        ts = [t for t in H.triples if t["root"] == root]
        if not ts:
            r.error("COMPLETE-KIND: anchor missing: observers of %s" % root)
            continue
        if "*" not in table:
            trig = [t for t in ts if H.is_trigger_triple(t)]
            src = [t for t in ts if not H.is_trigger_triple(t)]
            if len(trig) != 1 or len(src) != 1:
                src = [t for t in ts if "arg" in (t.get("target") or "")]
                trig = [t for t in ts if t not in src]
            if len(trig) != 1 or len(src) != 1:
                r.error("COMPLETE-KIND: %s: expected one source and one trigger observer, found %d/%d" % (root, len(src), len(trig)))
                continue
            roles = [("source", src[0]), ("trigger", trig[0])]
        else:
            roles = [("*", t) for t in ts]
        for role, t in roles:
            hb = t["handlers"].get("C")
            if hb is None:
                r.error("COMPLETE-KIND: complete handler of %s is not a closure" % root)
                continue
            got, want = kinds(hb), table[role]
            r.instance((root, "completion kind", role if role != "*" else "input"), True, "uses %s" % sorted(got))
            if got - want:
                bad = sorted(got - want)[0]
                r.violate((root, "completion kind", role if role != "*" else "input", bad),
                          "%s: the complete-handler of %s calls %s; with its other upstream(s) still alive that %s - the definition says %s"
                          % (root.split("::")[-1], {"*": "an input", "source": "the source", "trigger": "the trigger / target"}[role], bad,
                             "ends the whole stream at once" if bad == "sink_complete_force" else "only leaves and waits for the others",
                             " / ".join(sorted(want)) or "nothing (it neither ends nor holds up the stream)"), body=hb)
    return r


# ---------------------------------------------------------------------------- concat (C03)
def concat_rule(P, E, H):
    """concat plays its inputs strictly one after another: when the current one completes, the next is taken from the FRONT of
    the queue and subscribed; the whole completes only when the queue is empty."""
    r = RuleResult("CONCAT", "concat: on completion of the current input, the next queued input (front of the queue) is subscribed; "
                             "downstream completes exactly when none is left")
    root = "operators::concat::Concat"
    cands = []
    for b in P.bodies.values():
        if b.id in P.absorbed and False:
            continue
        if H.type_root(b) != root:
            continue
        if any(c.path in ("std::collections::VecDeque::pop_front", "std::collections::VecDeque::pop_back", "std::vec::Vec::pop", "std::vec::Vec::remove")
               for c in b.calls) and any(atom(c) == "subscribe" for c in b.calls):
            cands.append(b)
    # the same code may be seen standalone and inlined into a completion handler: judge each view
    if not cands:
        r.error("CONCAT: anchor missing: the code that takes the next input off the queue and subscribes it")
        return r
    for b in cands:
        try:
            S = Summary(P, E, b, item_param=99, item_kind="none")
            lens = sorted(s_ for s_ in S.symbols() if s_.startswith("len:"))
            if len(lens) != 1:
                raise Undecided("expected one queue, found %d" % len(lens))
            n = 0
            for ln in (0, 1, 2, 3):
                sigma = {lens[0]: ln}
                for s_ in S.symbols():
                    sigma.setdefault(s_, 0)
                outs = S.step(sigma, ALPHABET | {"pop_front", "pop_back"})
                if not outs:
                    raise Undecided("no feasible path for a queue of %d" % ln)
                for (tr, nx), (p_, c_) in outs.items():
                    n += 1
                    names = [x[0] for x in tr]
                    done = any(x in names for x in ("sink_complete", "sink_complete_force"))
                    sub = [x for x in tr if x[0] == "subscribe"]
                    if ln == 0 and (not done or sub or "panic" in names):
                        r.violate((root, "next input", "queue empty"),
                                  "concat: when the current input completes and no input is queued the code does %s; it must complete downstream" % names, body=b)
                    if ln > 0 and (done or len(sub) != 1 or "pop_front" not in names or "panic" in names):
                        r.violate((root, "next input", "queue not empty"),
                                  "concat: when the current input completes and %d input(s) are queued the code does %s; it must take the FIRST "
                                  "queued input and subscribe it (and not complete)" % (ln, names), body=b)
            r.instance((H.stable_name(b), "next input"), True, "%d guarded paths over queue lengths 0..3" % n)
        except Undecided as e:
            r.error("CONCAT: not decidable in the abstraction: %s" % e)
    # the queue starts as the inputs in the order given (front = the first `other`): the chain from the operator's vector of inputs
    # to the queue keeps the order
    import rules_arity as RAR
    A = RAR.Arity(P, E)
    for c in E.sites["create"]:
        cl = c.arg_closure(0)
        sb = P.bodies.get(cl) if cl else None
        if sb is None or H.type_root(P.bodies.get(sb.root) or sb) != root:
            continue
        for k in sb.calls:
            dt = (k.dest_t or {}).get("s", "") if isinstance(k.dest_t, dict) else ""
            if (k.path in RAR.COLLECT or k.path in ("std::convert::From::from", "std::convert::Into::into")) and k.args and \
                    ("VecDeque<observable::Observable" in dt or "Vec<observable::Observable" in dt):
                rev = A.reversed_chain(sb, k.args[0])
                r.instance((root, "queue order"), rev is not None, "queue filled %s" % {None: "in an order not decided", False: "front to back", True: "back to front"}[rev])
                if rev:
                    r.violate((root, "queue order", "reversed"), "concat: the queue of pending inputs is filled back to front: the inputs play in reverse order", body=sb, line=k.line)
    return r


# ---------------------------------------------------------------------------- zip (C03)
def zip_rule(P, E, H):
    """zip emits the i-th row from the i-th item of every input.  Structural conditions on the (un-inlined) bodies of Zip:
    Z1 an item is appended at the back of one queue of the queue vector; Z2 a row is taken only on the edge where every
    queue is non-empty (count-of-non-empty == number of queues, or no queue is_empty); Z3 the row is made of the FRONT of
    each queue; Z4 every row taken is handed downstream while the subscription is live."""
    r = RuleResult("ZIP", "zip: items queue per input (back), a row is taken only when every queue has one (front of each), and every row is emitted")
    root = "operators::zip::Zip"
    bodies = [P.orig.get(b.id, b) for b in P.bodies.values()
              if H.type_root(b) == root or (b.nid.startswith("operators::zip::") and not b.nid.startswith("operators::zip::test")
                                            and not b.impl_trait and "impl observable" not in b.nid)]
    if not bodies:
        r.error("ZIP: anchor missing: bodies of Zip")
        return r
    pops = [(b, c) for b in bodies for c in b.calls if c.path in ("std::collections::VecDeque::pop_front", "std::collections::VecDeque::pop_back",
                                                                   "std::vec::Vec::pop", "std::vec::Vec::remove")]
    pushes = [(b, c) for b in bodies for c in b.calls if c.path in ("std::collections::VecDeque::push_back", "std::collections::VecDeque::push_front",
                                                                     "std::vec::Vec::push") and len(c.args) > 1]
    r.instance((root, "queue operations"), True, "%d push, %d pop site(s)" % (len(pushes), len(pops)))
    # Z1
    item_pushes = [(b, c) for (b, c) in pushes if any(t[0] == "param" for t in b.operand_prov(c.args[1])) and
                   any("[]" in t[2] for t in b.operand_prov(c.args[0]))]
    if not item_pushes:
        r.violate((root, "Z1", "item not queued"), "no code of zip appends an incoming item to one of the per-input queues", body=bodies[0])
    for (b, c) in item_pushes:
        if not c.path.endswith("push_back") and not c.path.endswith("Vec::push"):
            r.violate((root, "Z1", "item queued at the front"), "zip queues an item at the front of its input's queue: rows pair items out of order", body=b, line=c.line)
    # Z3
    for (b, c) in pops:
        if not c.path.endswith("pop_front") and not (c.path.endswith("Vec::remove") and len(c.args) > 1 and c.args[1].get("int") == 0):
            r.violate((root, "Z3", "row made of the newest items"), "zip takes %s: the row is not made of the oldest queued item of each input" % c.path.split("::")[-1], body=b, line=c.line)
    if not pops:
        r.violate((root, "Z3", "nothing taken off the queues"), "zip never takes items off its queues", body=bodies[0])
    # Z2: the body that owns the emptiness test
    tested = False
    for b in bodies:
        kids = [P.orig.get(k.id, k) for k in P.children(P.bodies.get(b.id, b))]
        own_pops = [c for c in b.calls if (b, c) in pops] or [c for k in kids for c in k.calls if (k, c) in pops and False]
        pop_sites = [c.bb for c in b.calls if any(c is pc for (pb, pc) in pops if pb is b)]
        # pops inside closures handed to iterator adapters called from b count at the adapter call
        for c in b.calls:
            for t in E.inline_targets(c):
                to = P.orig.get(t.id, t)
                if any(pb is to for (pb, pc) in pops):
                    pop_sites.append(c.bb)
        if not pop_sites:
            continue
        for tb in sorted(b.reach):
            t = b.blocks[tb]["term"]
            if t["k"] != "switch" or t["discr"]["k"] not in ("copy", "move"):
                continue
            pol = _all_nonempty_polarity(P, E, b, t["discr"])
            if pol is None:
                continue
            tested = True
            zero_t = [x for v_, x in t["targets"] if v_ == 0]
            false_bb = zero_t[0] if zero_t else t["otherwise"]
            true_bb = t["otherwise"]
            good, bad = (true_bb, false_bb) if pol else (false_bb, true_bb)
            r.instance((root, "Z2"), True, "row test at bb%d of %s" % (tb, b.nid))
            if any(ps in b.reachable_from(bad) or ps == bad for ps in pop_sites) and not any(ps in b.reachable_from(good) for ps in pop_sites if ps not in b.reachable_from(bad)):
                r.violate((root, "Z2", "row taken although a queue is empty"),
                          "zip takes a row on the edge where some input has nothing queued (and not on the edge where all have)", body=b, line=t.get("line"))
            elif any(ps in b.reachable_from(bad) or ps == bad for ps in pop_sites) and bad not in b.reachable_from(good) and not _rejoins(b, good, bad, pop_sites):
                r.violate((root, "Z2", "row taken although a queue is empty"),
                          "zip takes a row also on the edge where some input has nothing queued", body=b, line=t.get("line"))
    if pops and not tested:
        r.violate((root, "Z2", "rows taken without testing the queues"), "zip takes a row without testing that every input has an item queued", body=bodies[0])
    # Z4: where the row comes back (a Fn call / local call returning it), the Some edge reaches sink_next
    emits = [(b, c) for b in [P.bodies.get(x.id, x) for x in bodies] for c in b.calls if atom(c) == "sink_next"]
    r.instance((root, "Z4"), True, "%d sink_next site(s)" % len(emits))
    if not emits:
        r.violate((root, "Z4", "rows never emitted"), "zip never hands a row downstream", body=bodies[0])
    else:
        # .. and it does so while the subscription is live (the loop's is_subscribed() poll only ends it once the subscriber left)
        from rules_count import ev_bool
        for t in H.triples:
            if t["root"] != root or t["handlers"].get("N") is None:
                continue
            try:
                S = Summary(P, E, t["handlers"]["N"])
            except Undecided:
                continue
            live_emit = dead_emit = False
            for p_ in S.paths:
                if not any(x[0] == "sink_next" for x in p_.trace):
                    continue
                for live in (True, False):
                    try:
                        if all(ev_bool(e, {"in:live": live}) for e in p_.pc):
                            live_emit = live_emit or live
                            dead_emit = dead_emit or (not live)
                    except (KeyError, Undecided):
                        live_emit = True
            if not live_emit:
                r.violate((root, "Z4", "rows emitted only after the subscriber left"),
                          "zip's emit loop hands a row downstream only on the edge where the subscription has ended", body=t["handlers"]["N"])
            break
    return r


def _rejoins(b, good, bad, pop_sites):
    return False


def _tests_nonempty(cb):
    """does this closure answer `queue is not empty` (len() > 0, len() >= 1, len() != 0, !is_empty())?"""
    for i in sorted(cb.reach):
        for st in cb.blocks[i]["stmts"]:
            if st["k"] != "assign":
                continue
            rv = st["rv"]
            if rv.get("k") == "binop" and rv.get("op") in ("Gt", "Ge", "Ne", "Lt", "Le"):
                a_, b_ = rv["a"], rv["b"]
                la = any(x[0] == "ret" and (cb.call_at(x[1]) and cb.call_at(x[1]).path.endswith("::len")) for x in cb.operand_prov(a_)) if a_.get("k") != "const" else False
                lb = any(x[0] == "ret" and (cb.call_at(x[1]) and cb.call_at(x[1]).path.endswith("::len")) for x in cb.operand_prov(b_)) if b_.get("k") != "const" else False
                if la and b_.get("k") == "const":
                    return (rv["op"], b_.get("int")) in (("Gt", 0), ("Ge", 1), ("Ne", 0))
                if lb and a_.get("k") == "const":
                    return (rv["op"], a_.get("int")) in (("Lt", 0), ("Le", 1), ("Ne", 0))
            if rv.get("k") == "unop" and rv.get("op") == "Not":
                for x in cb.operand_prov(rv.get("a") or {"k": "const"}):
                    k = cb.call_at(x[1]) if x[0] == "ret" else None
                    if k is not None and k.path.endswith("::is_empty"):
                        return True
    return False


def _all_nonempty_polarity(P, E, b, discr, depth=0):
    """True if the boolean operand means `every queue has an item`, False for its negation, None if unrelated"""
    if depth > 5 or discr.get("k") not in ("copy", "move"):
        return None
    out = None
    for t in b.operand_prov(discr):
        if t[0] == "val":
            rv = b.blocks[t[1][0]]["stmts"][t[1][1]]["rv"]
            if rv.get("k") == "binop" and rv.get("op") in ("Eq", "Ne"):
                srcs = []
                for o in (rv["a"], rv["b"]):
                    names = set()
                    for x in b.operand_prov(o):
                        if x[0] == "ret":
                            k = b.call_at(x[1])
                            if k is not None:
                                names.add(k.path.split("::")[-1])
                    srcs.append(names)
                if any("count" in s_ for s_ in srcs) and any("len" in s_ for s_ in srcs):
                    out = (rv["op"] == "Eq")
                    # what is counted must be the non-empty queues
                    for o in (rv["a"], rv["b"]):
                        for x in b.operand_prov(o):
                            k = b.call_at(x[1]) if x[0] == "ret" else None
                            if k is not None and k.path.endswith("::count") and k.args:
                                for y in b.operand_prov(k.args[0]):
                                    kf = b.call_at(y[1]) if y[0] == "ret" else None
                                    if kf is not None and kf.path.endswith("Iterator::filter"):
                                        for tg in E.inline_targets(kf):
                                            if not _tests_nonempty(P.orig.get(tg.id, tg)):
                                                out = None
            elif rv.get("k") == "unop" and rv.get("op") == "Not":
                inner = _all_nonempty_polarity(P, E, b, rv.get("a"), depth + 1)
                out = None if inner is None else (not inner)
        elif t[0] == "ret" and not t[2]:
            k = b.call_at(t[1])
            if k is not None and k.path in ("std::iter::Iterator::any", "std::iter::Iterator::all"):
                empt = False
                for tg in E.inline_targets(k):
                    to = P.orig.get(tg.id, tg)
                    names = [c.path.split("::")[-1] for c in to.calls]
                    if "is_empty" in names:
                        empt = True
                    elif "len" in names:
                        empt = None
                if empt is True:
                    # any(is_empty) -> a queue is empty ; all(is_empty) is not a usable test
                    out = False if k.path.endswith("::any") else None
    return out
