"""Result types shared by all rules."""


class Violation:
    def __init__(self, rule, key, what, body=None, line=None, path=None, file=None):
        self.rule = rule
        self.key = tuple(key)          # line-free identity: (rule, body/def path, detail)
        self.what = what
        self.file = file or (body.file if body is not None else None)
        self.line = line if line is not None else (body.line if body is not None else None)
        self.path = path or []

    def keystr(self):
        return " | ".join(self.key)

    def to_json(self):
        return dict(rule=self.rule, key=list(self.key), what=self.what,
                    location="%s:%s" % (self.file, self.line), path=self.path)


class RuleResult:
    def __init__(self, rule, doc=""):
        self.rule = rule
        self.doc = doc
        self.instances = []       # list of (key tuple, nontrivial bool, description)
        self.violations = []
        self.errors = []          # fail-closed conditions (anchor missing, unresolved, ..)

    def instance(self, key, nontrivial=True, desc=None):
        self.instances.append((tuple(key), bool(nontrivial), desc))

    def violate(self, *a, **k):
        self.violations.append(Violation(self.rule, *a, **k))

    def error(self, msg):
        self.errors.append("%s: %s" % (self.rule, msg))

    @property
    def examined(self):
        return len(self.instances)

    @property
    def distinct_nontrivial(self):
        return len({k for (k, nt, _) in self.instances if nt})

    def samples(self, n=3):
        out = []
        for (k, nt, d) in self.instances:
            if nt and d:
                out.append(dict(rule=self.rule, instance=list(k), detail=d))
                if len(out) >= n:
                    break
        return out
