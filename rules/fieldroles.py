"""Canonical field names.  The rules name struct fields (Observer.fn_next, StreamController.
unscribers, ...).  To stay silent when a private field is merely renamed, the fields are
identified by their TYPE (and, for the two same-typed Subject hooks, by the setter that writes
them) and the facts are rewritten to the canonical names before any analysis.  A struct whose
fields cannot be matched unambiguously is left untouched (the rules then fail closed on a missing
anchor instead of guessing)."""
import re

LOCKS = r"(?:std::sync::(?:poison::)?(?:RwLock|Mutex))"
ARC_LOCK = r"std::sync::Arc<" + LOCKS + r"<%s>>"
ATOMIC_BOOL = r"std::sync::Arc<std::sync::atomic::Atomic(?:Bool|<bool>)>"
ATOMIC_INT = r"std::sync::Arc<std::sync::atomic::Atomic(?:I32|I64|U32|U64|Usize|Isize|<(?:i32|i64|u32|u64|usize|isize)>)>"
FWT = r"internals::function_wrapper::FunctionWrapper<'[a-z_]+, %s, %s>"
TP = r"[A-Z][A-Za-z0-9_]*"          # a generic type parameter


def _m(pat):
    return re.compile("^" + pat + "$")


SPECS = {
    "observer::Observer": [
        ("fn_error", _m(FWT % (r"rx_error::RxError", r"\(\)"))),
        ("fn_complete", _m(FWT % (r"\(\)", r"\(\)"))),
        ("fn_next", _m(FWT % (TP, r"\(\)"))),
        ("fn_on_unsubscribe", _m(ARC_LOCK % (r"std::option::Option<" + FWT % (r"\(\)", r"\(\)") + ">"))),
        ("terminated", _m("(?:" + ARC_LOCK % "bool" + "|" + ATOMIC_BOOL + ")")),
    ],
    "internals::stream_controller::StreamController": [
        ("serial", _m("(?:" + ARC_LOCK % r"(?:i32|i64|u32|u64|usize)" + "|" + ATOMIC_INT + ")")),
        ("subscriber", _m(r"observer::Observer<'[a-z_]+, " + TP + ">")),
        ("unscribers", _m(ARC_LOCK % (r"std::collections::(?:HashMap|BTreeMap)<(?:i32|i64|u32|u64|usize), " + FWT % (r"\(\)", r"\(\)") + r"(?:, [^>]*)?>"))),
        ("on_finalize", _m(ARC_LOCK % (r"std::option::Option<" + FWT % (r"\(\)", r"\(\)") + ">"))),
    ],
    "internals::function_wrapper::FunctionWrapper": [
        ("inner", _m(r"std::sync::Arc<" + LOCKS + r"<std::option::Option<.*>>>")),
    ],
    "subscription::Subscription": [
        ("fn_unsubscribe", _m(FWT % (r"\(\)", r"\(\)"))),
        ("fn_is_subscribed", _m(FWT % (r"\(\)", "bool"))),
    ],
    "observable::Observable": [
        ("source", _m(FWT % (r"observer::Observer<'[a-z_]+, " + TP + ">", r"\(\)"))),
    ],
    "schedulers::async_function_queue::AsyncFunctionQueueData": [
        ("queue", _m(LOCKS + r"<std::collections::VecDeque<.*>>")),
        ("cond", _m(r"std::sync::(?:poison::)?Condvar")),
        ("abort", _m(LOCKS + r"<bool>")),
    ],
    "operators::to_vec::ToVec": [
        ("buffer", _m(ARC_LOCK % (r"std::vec::Vec<" + TP + ">"))),
        ("done", _m(ARC_LOCK % "bool")),
        ("err", _m(ARC_LOCK % r"std::option::Option<rx_error::RxError>")),
        ("waker", _m(ARC_LOCK % r"std::option::Option<std::task::Waker>")),
    ],
    "operators::ref_count::RefCount": [
        ("subscription", _m(ARC_LOCK % r"std::option::Option<subscription::Subscription<'[a-z_]+>>")),
    ],
    "operators::replay::Replay": [
        ("subscription", _m(ARC_LOCK % r"std::option::Option<subscription::Subscription<'[a-z_]+>>")),
    ],
    "subjects::replay_subject::ReplaySubject": [
        ("items", _m(ARC_LOCK % (r"std::(?:vec::Vec|collections::VecDeque)<" + TP + ">"))),
        ("was_completed", _m("(?:" + ARC_LOCK % "bool" + "|" + ATOMIC_BOOL + ")")),
        ("was_error", _m(ARC_LOCK % r"std::option::Option<rx_error::RxError>")),
    ],
    "subjects::subject::Subject": [
        ("observers", _m(ARC_LOCK % (r"std::collections::(?:HashMap|BTreeMap)<(?:i32|i64|u32|u64|usize), observer::Observer<'[a-z_]+, " + TP + r">(?:, [^>]*)?>"))),
        ("serial", _m("(?:" + ARC_LOCK % r"(?:i32|i64|u32|u64|usize)" + "|" + ATOMIC_INT + ")")),
    ],
}
# Subject's two hooks have the same type: told apart by the pub(crate) setter that stores into them
SUBJECT_HOOKS = {"set_on_subscribe": "on_subscribe", "set_on_unsubscribe": "on_unsubscribe"}
_GEN = re.compile(r"::<[^<>]*>")


def _norm(p):
    prev = None
    while prev != p:
        prev = p
        p = _GEN.sub("", p)
    return p


def compute_renames(facts):
    """{(normalised ADT path, actual field name): canonical name}.  A spec is tried on the struct it
    is written for and on every other struct of the same module (a refactoring may group the
    fields into a private helper struct); a role that matches more than one field overall is
    dropped (ambiguous: leave the names alone)."""
    ren = {}
    by_mod = {}
    for a in facts["adts"]:
        by_mod.setdefault(_norm(a["path"]).rsplit("::", 1)[0], []).append(a)
    for spec_adt, spec in SPECS.items():
        mod = spec_adt.rsplit("::", 1)[0]
        cands = by_mod.get(mod, [])
        for (canon, rx) in spec:
            hits = []
            for a in cands:
                for v in a["variants"]:
                    for f in v["fields"]:
                        if rx.match(f["ty"]["s"]):
                            hits.append((_norm(a["path"]), f["name"]))
            # prefer the struct the spec names when it still has the field
            own = [h for h in hits if h[0] == spec_adt]
            if len(own) == 1:
                hits = own
            if len(hits) == 1 and hits[0][1] != canon:
                ren[hits[0]] = canon
    # Subject hooks via their setters
    sub = "subjects::subject::Subject"
    for b in facts["bodies"]:
        nid = _norm(b["id"])
        for setter, canon in SUBJECT_HOOKS.items():
            if nid == sub + "::" + setter:
                names = set()
                for bb in b["blocks"]:
                    for s in bb["stmts"]:
                        if s["k"] == "assign":
                            for p in (s["lhs"], s["rv"].get("p", [])):
                                for e in p[1:] if p else []:
                                    if isinstance(e, str) and e.startswith(".") and ":" in e:
                                        nm = e.split(":", 1)[1]
                                        adt = sub
                                        if "@" in nm:
                                            nm, adt = nm.split("@", 1)
                                            adt = _norm(adt)
                                            if not adt.startswith("subjects::subject::"):
                                                continue
                                        names.add((adt, nm))
                # the hook field is the innermost field of a subject-module struct that the setter writes through
                hooks = [x for x in names if x[1] not in ("hub",) ]
                typed = []
                for a in facts["adts"]:
                    for v in a["variants"]:
                        for f in v["fields"]:
                            if (_norm(a["path"]), f["name"]) in names and "FunctionWrapper" in f["ty"]["s"] and "Option" in f["ty"]["s"]:
                                typed.append((_norm(a["path"]), f["name"]))
                if len(typed) == 1 and typed[0][1] != canon:
                    ren[typed[0]] = canon
    return ren


def canonicalise(facts):
    """Registers the renames in the facts (applied by model.Body._proj_path to ADT-qualified field
    projections) and rewrites the ADT field table."""
    ren = compute_renames(facts)
    facts["_field_renames_q"] = ren
    for a in facts["adts"]:
        an = _norm(a["path"])
        for v in a["variants"]:
            for f in v["fields"]:
                if (an, f["name"]) in ren:
                    f["name"] = ren[(an, f["name"])]
    facts["_field_renames"] = {"%s.%s" % k: v for k, v in ren.items()}
    return facts
