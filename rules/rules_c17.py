"""Ownership-cycle rules (DESIGN 6 C17): K-self-cycle discovery against the reviewed table and
the cut obligations K1, K5, K6 (K2/K3/K4 are S-finalize-shape, O-unsub-order, J-rules)."""
from core import RuleResult
from effects import *
from rules_o import _gate_true_blocks, _sctl

INSTALL_ROLES = {"TEARDOWN", "ON_FINALIZE", "COUNT_UP", "COUNT_DOWN"}


def _roots(P, b, provs):
    """global (body, rootkind, rootdata, path) terms; aggregates expanded to their operands."""
    out = set()
    work = [(b, t, 0) for t in provs]
    while work:
        bb, t, d = work.pop()
        for g in P.global_cell(bb, t, through_helpers=True):
            gb = P.bodies[g[0]]
            if g[1] == "agg" and d < 4:
                st = gb.blocks[g[2][0]]["stmts"][g[2][1]]["rv"]
                for o in st["ops"]:
                    for t2 in gb.operand_prov(o):
                        work.append((gb, t2, d + 1))
            out.add(g)
    return out


def _alias(a, b):
    if a[:3] != b[:3]:
        return False
    if a[1] in ("unk", "const", "val", "discr"):
        return False
    pa, pb = a[3], b[3]
    n = min(len(pa), len(pb))
    return pa[:n] == pb[:n]


def _any_alias(A, B):
    return any(_alias(x, y) for x in A for y in B)


def _closure_capture_roots(P, cl_body, view=None):
    """roots of what the closure captures; when `view` (an inlined body) contains the closure's
    creation statement, the captures are resolved in that frame (so that they can be compared with
    other values of the same activation even if the closure is built inside an inlined helper)."""
    if view is not None:
        for i in sorted(view.reach):
            for s_ in view.blocks[i]["stmts"]:
                if s_["k"] == "assign" and s_["rv"]["k"] == "agg" and s_["rv"].get("ak") == "closure" \
                        and s_["rv"]["def"] == cl_body.id:
                    out = set()
                    for o in s_["rv"]["ops"]:
                        out |= _roots(P, view, view.operand_prov(o))
                    return out
    cr = P.created.get(cl_body.id)
    if not cr:
        return set()
    parent, bb, j, ops = cr[0], cr[1], cr[2], cr[3]
    out = set()
    for o in ops:
        out |= _roots(P, parent, parent.operand_prov(o))
    return out


def _module_of(b):
    """source module of a body (stable under function renames / helper extraction inside the file)"""
    parts = norm(b.root).lstrip("<").split("::")
    if parts[0] in ("operators", "subjects", "observables", "utils", "schedulers", "internals") and len(parts) > 1:
        return parts[0] + "::" + parts[1]
    return parts[0]


def _closures_in_view(P, b):
    """closures created by b (including by helpers inlined into it) and everything nested in them"""
    out, seen = [], set()
    for i in sorted(b.reach):
        for s_ in b.blocks[i]["stmts"]:
            if s_["k"] == "assign" and s_["rv"]["k"] == "agg" and s_["rv"].get("ak") == "closure":
                cb = P.bodies.get(s_["rv"]["def"])
                if cb is not None and cb.id not in seen:
                    seen.add(cb.id)
                    out.append(cb)
                    for d in P.descendants(cb):
                        if d.id not in seen:
                            seen.add(d.id)
                            out.append(d)
    return out


def discover(P, E):
    """[(family-key tuple, description)]"""
    found = []
    for b in sorted(P.bodies.values(), key=lambda x: x.nid):
        if b.id in P.absorbed:
            continue
        for c in b.calls:
            table = ROLE_API.get(c.path, {})
            for i, role in table.items():
                if role not in INSTALL_ROLES or i >= len(c.args):
                    continue
                cl = c.arg_closure(i)
                if not cl or cl not in P.bodies:
                    continue
                clb = P.bodies[cl]
                R = _roots(P, b, b.operand_prov(c.args[0]))
                caps = _closure_capture_roots(P, clb, view=b)
                rootfn = _module_of(b)
                # shape 1: captures (an aggregate holding) an alias of the receiver
                if _any_alias(caps, R):
                    found.append(((rootfn, role, "captures-receiver"), "%s installs a %s closure on a receiver the closure itself owns" % (b.nid, role)))
                    continue
                # shape 2/3: captures a cell X that (in this activation) comes to own the receiver
                scope = [b] + _closures_in_view(P, b)
                hit = None
                for x in scope:
                    for k in x.calls:
                        # X.insert(.., value aliasing r)   /  X.method(closure capturing alias of r)
                        if not k.args:
                            continue
                        recv = _roots(P, x, x.operand_prov(k.args[0]))
                        if not _any_alias(recv, caps):
                            continue
                        for a in k.args[1:]:
                            acl = ty_closure(a.get("t"))
                            if acl and acl in P.bodies:
                                if _any_alias(_closure_capture_roots(P, P.bodies[acl], view=x), R):
                                    hit = hit or "receives-closure-owning-receiver"
                                continue
                            vr = _roots(P, x, x.operand_prov(a))
                            if _any_alias(vr, R):
                                hit = hit or "stores-receiver"
                            # X.replace(handle) / X.insert(handle): the same store as `*X = Some(handle)`
                            if k.path in ("std::option::Option::replace", "std::option::Option::insert", "std::option::Option::get_or_insert"):
                                for g in vr:
                                    if g[1] == "ret" and _call_chain_owns(P, E, P.bodies[g[0]], g[2], R):
                                        hit = hit or "stores-subscription-owning-receiver"
                    # (*guard of X) = Some(value from a call whose closure args own r)
                    for bi in sorted(x.reach):
                        for s in x.blocks[bi]["stmts"]:
                            if s["k"] != "assign" or len(s["lhs"]) < 2:
                                continue
                            lr = _roots(P, x, x.place_prov(s["lhs"]))
                            if not _any_alias(lr, caps):
                                continue
                            if s["rv"]["k"] != "use":
                                continue
                            for t in x.operand_prov(s["rv"]["op"]):
                                for g in _roots(P, x, [t]):
                                    if _alias(g, list(R)[0]) if R else False:
                                        hit = hit or "stores-receiver"
                                    if g[1] == "ret":
                                        if _call_chain_owns(P, E, P.bodies[g[0]], g[2], R):
                                            hit = hit or "stores-subscription-owning-receiver"
                if hit:
                    found.append(((rootfn, role, hit), "%s installs a %s closure capturing a cell that comes to own the receiver" % (b.nid, role)))
    # new_observer: unscribers entry owns the returned observer, whose handlers own the controller
    no = P.body(SCTL + "::new_observer")
    if no is not None:
        for c in no.calls:
            if c.path == "std::collections::HashMap::insert":
                found.append((("internals::stream_controller", "UNSCRIBER", "entry-owns-observer"), "unscribers entry owns the upstream observer"))
    return found


def _call_chain_owns(P, E, b, bb, R, depth=0):
    """the value returned by the call at bb was produced from closure arguments that own an alias
    of R (directly, or through the receiver of the call, e.g. ready_set_go(..).subscribe(..))."""
    c = b.call_at(bb)
    if c is None or depth > 3:
        return False
    for a in c.args:
        acl = ty_closure(a.get("t"))
        if acl and acl in P.bodies and _any_alias(_closure_capture_roots(P, P.bodies[acl], view=b), R):
            return True
    # .. or through any argument that is itself the result of such a call (the receiver of a chained call,
    # an Observer built by Observer::new(closures..) and handed to inner_subscribe)
    for a in c.args:
        for t in b.operand_prov(a):
            if t[0] == "ret" and t[1] != bb and _call_chain_owns(P, E, b, t[1], R, depth + 1):
                return True
    return False


# The reviewed cycle table (DESIGN 6 C17): family key -> (cycle id, cut obligation)
REVIEWED = {
    ("internals::stream_controller", "TEARDOWN", "captures-receiver"): ("#1", "K1"),
    ("internals::stream_controller", "UNSCRIBER", "entry-owns-observer"): ("#2", "K2"),
    ("subjects::subject", "TEARDOWN", "stores-receiver"): ("#3", "K4"),
    ("subjects::behavior_subject", "TEARDOWN", "stores-subscription-owning-receiver"): ("#4", "K5"),
    ("subjects::replay_subject", "TEARDOWN", "stores-subscription-owning-receiver"): ("#4", "K5"),
    ("operators::ref_count", "COUNT_UP", "captures-receiver"): ("#5", "K6"),
    ("operators::replay", "COUNT_UP", "captures-receiver"): ("#5", "K6"),
    ("operators::ref_count", "COUNT_DOWN", "stores-subscription-owning-receiver"): ("#5b", "K6"),
    ("operators::replay", "COUNT_DOWN", "stores-subscription-owning-receiver"): ("#5b", "K6"),
    ("operators::observe_on", "ON_FINALIZE", "receives-closure-owning-receiver"): ("#6", "K2"),
    ("operators::subscribe_on", "ON_FINALIZE", "receives-closure-owning-receiver"): ("#6", "K2"),
    ("operators::debounce", "ON_FINALIZE", "receives-closure-owning-receiver"): ("#6", "K2"),
}


def k_self_cycle(P, E):
    r = RuleResult("K-self-cycle", "ownership cycles created by installing a closure that (transitively) owns its "
                                   "receiver are discovered and must be in the reviewed table (each has a cut obligation)")
    found = discover(P, E)
    keys = {k for k, _ in found}
    seen_k = set()
    for k, d in found:
        if k in seen_k:
            continue
        seen_k.add(k)
        r.instance(k, True, d)
        if k not in REVIEWED:
            r.violate(k + ("undiscussed ownership cycle",),
                      "%s: a new closure-owns-its-receiver installation with no reviewed cut obligation" % d)
    for k in REVIEWED:
        if k not in keys:
            r.error("reviewed cycle %s %s not rediscovered (discovery drift: fail closed)" % (REVIEWED[k][0], k))
    return r


def k1_cut_after_terminal(P, E):
    r = RuleResult("K1", "after a downstream terminal every path through finalize() cuts the subscriber's teardown "
                         "slot (Observer::unsubscribe), following is_subscribed() gates on their false edge")
    b = _sctl(P, "finalize")
    if b is None:
        r.error("anchor missing: StreamController::finalize")
        return r
    cuts = [c.bb for c in b.calls if atom(c) == "obs_unsubscribe"
            and any(rk == "param" and rd == 1 and path[:1] == ("subscriber",) for (rk, rd, path) in b.operand_prov(c.args[0]))]
    gates = _gate_true_blocks(b)
    banned = {(g["switch"], g["true"]) for g in gates if g["true"] != g["false"]}
    # reachability entry -> return avoiding cut blocks and banned edges
    seen, st, prev = {0}, [0], {0: None}
    hit = None
    while st:
        x = st.pop()
        if x in cuts:
            continue
        if x in b.returns:
            hit = x
            break
        for s in b.succ.get(x, []):
            if (x, s) in banned or s in seen:
                continue
            seen.add(s)
            prev[s] = x
            st.append(s)
    r.instance((b.nid, "cut"), True, "cut blocks %s, gates %s" % (cuts, [(g["switch"], g["true"]) for g in gates]))
    if not cuts:
        r.violate((b.nid, "no cut"), "finalize never unsubscribes the downstream observer: the teardown closure "
                  "(which owns the controller, which owns the observer) is never released", body=b)
    elif hit is not None:
        path = []
        x = hit
        while x is not None:
            path.append(x)
            x = prev[x]
        r.violate((b.nid, "terminal without cut of subscriber teardown"),
                  "after a terminal (subscriber no longer subscribed) finalize() returns without "
                  "subscriber.unsubscribe(): the Observer.fn_on_unsubscribe -> finalize-closure -> StreamController -> "
                  "Observer cycle survives", body=b, path=E.describe_path(b, path[::-1]))
    # the sinks reach finalize after a terminal: S-finalize-after-terminal (registered alongside)
    return r


def k5_relay_cut(P, E):
    """Behavior/Replay subjects: the relay closures (callbacks of the subscription stored in
    `sbsc`) must unsubscribe the subscriber after handing it a terminal."""
    r = RuleResult("K5", "relaying a terminal to a subscriber whose teardown owns the relay subscription is followed "
                         "by a cut (subscriber.unsubscribe()) on every path")
    for root in ("subjects::behavior_subject::BehaviorSubject::observable",
                 "subjects::replay_subject::ReplaySubject::observable"):
        rb = P.body(root)
        if rb is None:
            r.error("anchor missing: %s" % root)
            continue
        n = 0
        from rules_subject import source_closure_of
        srcb = source_closure_of(P, root)
        relays = []
        for c in (srcb.calls if srcb is not None else []):
            if atom(c) == "subscribe":
                for i in (2, 3):
                    cl = c.arg_closure(i)
                    if cl in P.bodies:
                        relays.append(P.bodies[cl])
        for b in relays:
            terms = [c for c in b.calls if atom(c) in ("obs_error", "obs_complete")]
            cuts = [c.bb for c in b.calls if atom(c) == "obs_unsubscribe"]
            for c in terms:
                n += 1
                r.instance((root, "relay " + atom(c)), True, "terminal relay at bb%d, cuts %s" % (c.bb, cuts))
                recv = b.operand_prov(c.args[0])
                same = [x.bb for x in b.calls if atom(x) == "obs_unsubscribe" and
                        _any_alias(_roots(P, b, b.operand_prov(x.args[0])), _roots(P, b, recv))]
                p = Effects.path_avoiding(b, b.returns, same, start=c.target) if c.target not in same else None
                if p is not None:
                    r.violate((root, "relay %s without cut" % atom(c)),
                              "the relay hands the subscriber its terminal and returns without unsubscribing it: "
                              "subscriber.teardown -> sbsc -> Subscription -> relay observer -> subscriber survives",
                              body=b, line=c.line)
        if n < 2:
            r.error("K5: expected 2 terminal relays in %s, found %d" % (root, n))
    return r


def k6_connect_cycle(P, E):
    """ref_count / replay: Subject.on_subscribe -> connect closure -> Subject.  Obligation: some
    end-of-life path clears the on_subscribe slot (or the closure holds the subject weakly)."""
    r = RuleResult("K6", "the connect closure stored in Subject.on_subscribe owns the subject: some end-of-life path "
                         "must clear that slot")
    clears = []
    for b in P.bodies.values():
        for i in sorted(b.reach):
            for s in b.blocks[i]["stmts"]:
                if s["k"] == "assign" and len(s["lhs"]) > 1:
                    for t in b.place_prov(s["lhs"]):
                        for g in P.global_cell(b, t, through_helpers="add"):
                            if "on_subscribe" in g[3]:
                                rv = s["rv"]
                                val = None
                                for tt in (b.operand_prov(rv["op"]) if rv["k"] == "use" else []):
                                    if tt[0] == "agg":
                                        val = b.blocks[tt[1][0]]["stmts"][tt[1][1]]["rv"].get("variant")
                                if val == "None":
                                    clears.append(b.nid)
    for root in ("operators::ref_count::RefCount::new", "operators::replay::Replay::new"):
        rb = P.body(root)
        if rb is None:
            r.error("anchor missing: %s" % root)
            continue
        r.instance((root, "connect closure"), True, "on_subscribe clears anywhere in the crate: %s" % clears)
        weak = any("Weak" in (u["ty"]["s"]) for b in _closures_in_view(P, rb) for u in b.upvars)
        if not clears and not weak:
            r.violate((root, "connect closure never released"),
                      "Subject.on_subscribe holds the connect closure, which owns a clone of the same Subject (and the "
                      "source observable with all its operator closures); nothing ever clears the slot", body=rb)
    return r
