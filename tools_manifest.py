#!/usr/bin/env python3
"""Regenerates MANIFEST.json from the registry (claimed properties) and the N/A table."""
import json, os, sys
HERE = os.path.dirname(os.path.abspath(__file__))
sys.path.insert(0, os.path.join(HERE, "rules"))
import registry

NA = {
    "C16": "timing against a clock (instants d, 2d, 3d; 'exactly when more than d elapses') is a runtime quantity with no "
           "static bound in reach; its one structural clause (sample/debounce deliver each stored item at most once) is "
           "checked under C03 (atomic take-and-clear). DESIGN.md §6 C16",
}
PENDING = "check not built yet (framework under construction); planned static rule in DESIGN.md §6"
TECH = {
    "C01": "typestate: Observer slot automaton extracted from MIR by abstract interpretation, explored exhaustively; who-may-invoke; atomic-take and gate dominance rules; constructor/wiring rules (fresh slots, slot purity, initial state of the terminal flag, subscribe hands its callbacks straight to the Observer); clear() totality; no user code between fetch and call",
    "C02": "must-pass-through path rule on every complete-handler CFG (MIR) + serial provenance dataflow (terminal forwarding); counting clause: path-sensitive symbolic summary of each counting operator's item handler (affine integers, comparison guards, effect traces) explored as a transition system over every ordering of counter and bound and compared with the operator's table; capture analysis; item values/predicates not decided; reference-machine comparison of each operator's extracted handler transitions (OPSEM), delegation comparison for operators written as pipelines, creation-function path languages (SRC), wiring rule on the operator methods/constructors (WIRE)",
    "C03": "ordering rule on the event-CFG (register-all-before-subscribe-any) + must-pass-through on combinator handlers; reference machines for the gating operators and amb explored over interleavings (GATE, AMB), affine iteration-count analysis (observers registered = inputs subscribed = queues; pool consumption; input order), completion-kind table, trigger-before-source order, lazy-registration detection, wiring rule",
    "C04": "payload provenance dataflow (own error object reaches sink_error on every path), structural recovery recognition, who-originates-errors rule; no-wrap rule on generic error constructors, no completion before the forwarded error, retry progression (affine attempt/limit), gating/amb reference machines for the error events",
    "C05": "ordering/typestate rule on Observer::unsubscribe (MIR paths + slot interpreter), gate dominance; hook-store rule (setters keep their callback), initial-state and handoff-only rules on inner_subscribe, connect returns the source subscription",
    "C06": "pairing rule on all paths (upstream_abort_observe before early sink_complete), finalize shape and must-pass-through rules; registered-observer rule (REG-ALL), relay purity of new_observer, take's counting clause, start_with re-check, amb losers cut, producer-loop polling",
    "C07": "lock-effect analysis: guard liveness dataflow on MIR x user-reachability over the resolved call graph x cell-instance identity (re-entrancy self-deadlock), leaf-lock rule, loop-poll rule; wake-up protocol of the scheduler queue (notify / predicate / re-check / only the worker loop blocks), to_vec wake-up rules, register-first",
    "C08": "condvar/mutex discipline rules (monitor premises Q1-Q11) on the MIR: guard liveness, must-pass-through notify, dominance of the abort re-check, loop-exit structure, who-may-call; who-may-stop, initial abort flag, wait-predicate polarity and emptiness, blocking-wait placement",
    "C17": "ownership analysis: discovery of closure-owns-its-receiver installations vs a reviewed table + cut obligations as path rules; fresh-slot rule, register-first incl. lazy iterators, registered-observer rule, abort wiring, start_with re-check",
    "C18": "lock-order/atomicity rules on ToVec::poll and the terminal callbacks (guard liveness + dominance); field-wise Clone (clones share the waker slot); initial state of done/err/waker, callback-after-terminal typestate, handoff-only rule on inner_subscribe",
    "C09": "hand-off rules: exactly-one-post must-pass-through per handler, role agreement of the posted task's sink, payload provenance through captures, who-may-call abort; one scheduler per subscription created by the per-subscribe code, relay purity, error-handler ordering, wiring rule",
    "C10": "who-may-write + ordering rules on the Subject map (guard liveness, dominance, key provenance and value-source dataflow of the key counter), hot-constructor capture rule, field-wise Clone; broadcast-reaches-every-observer rule, subjects' record/hand-over reference (SUBJ) incl. every container effect, take_last counting clause (AsyncSubject), initial state",
    "C11": "atomicity rule: deciding cells acquired exactly once in write mode per body, no emission under the guard; amb reference machine, iteration-count analysis, completion-kind table, one-scheduler rule, every input's completion reaches the remove-and-test",
    "C12": "who-may-write + snapshot-delivery + history-before-broadcast ordering rules, two-step-window atomicity (J8), hot-constructor capture rule; broadcast-reaches-every-observer rule, slot-call rule (no panicking call), initial state of the recorded terminal",
    "C13": "atomicity (test-and-set under one guard), who-may-write and role-agreement rules on publish/ref_count/replay; connect/disconnect hooks stored and fed (HOOK-STORE, SUB), subjects' reference (SUBJ), registry emptied at terminals, wiring rule, initial state",
    "C15": "pairing rule: scheduler creation paired with abort wiring on all paths; who-may-spawn; worker loop exit structure; wake-up / exit rules of the worker loop, initial state, hook-store, connect atomicity, register-first, early-stop pairing, re-entrancy under worker tasks",
    "C19": "atomic-take and arbiter-ordering rules on Observer/FunctionWrapper MIR, slot typestate summaries, blocking-acquisition rule (no skipping try-lock); only error()/complete() invoke a terminal slot, clear() totality, slot purity/fresh cells shared by clones, initial state, no user code between fetch and call",
    "C14": "capture/ownership analysis: interior-mutable leaves of every upvar type of every Observable::create closure; fresh-slot rule (an observer never empties a wrapper it was handed), key captured at subscription, registry emptied before notification",
}
NOTE = ("Decides necessary structural conditions on the MIR of /repo's current tree (all paths of every matching site); "
        "assumes A-item, A-sched, A-std, A-poison, A-build, A-internals (DESIGN.md §4); trusted base: rustc nightly MIR, "
        "the rxlint serialiser, the python rule code.")

ids = [json.loads(l)["id"] for l in open(os.path.join(HERE, "properties.jsonl"))]
checks, na = [], []
for pid in ids:
    if registry.rules_for(pid) and pid not in NA:
        checks.append({
            "property_id": pid,
            "quick_cmd": "./check %s --tier quick" % pid,
            "thorough_cmd": "./check %s --tier thorough" % pid,
            "evidence_file": "/verif/evidence/%s.json" % pid,
            "replay_cmd_template": "./check %s --replay {path}" % pid,
            "engine": "rxlint",
            "level_claimed": {"category": "other",
                              "text": "static rule set: " + registry.EXPLANATION.get(pid, ""),
                              "design_ref": "DESIGN.md §6 %s" % pid},
            "level_note": NOTE,
            "technique": TECH.get(pid, "static rules over MIR facts"),
        })
    else:
        na.append({"property_id": pid, "reason": NA.get(pid, PENDING)})
m = {
    "version": 1,
    "setup_cmd": "cd /verif/rxlint && cargo +nightly build --release --offline && cd /verif && python3 rules/selftest.py",
    "hooks": {"guard": "another_rxrust_verif",
              "enable": "none: the static analysis needs no instrumentation of /repo; the guard name is reserved and unused",
              "baseline_off_cmd": "cd /repo && cargo test --workspace --no-fail-fast --offline",
              "source_commits": [], "add_only": True},
    "engines": [{"name": "rxlint", "path": "/verif/rxlint", "serves_properties": [c["property_id"] for c in checks],
                 "kind_free_text": "rustc_private driver serialising type-checked MIR (resolved callees, types, closure captures) "
                                   "to JSON facts; python rules (/verif/rules): CFG path queries, provenance dataflow, guard "
                                   "liveness, slot typestate interpreter"}],
    "checks": checks,
    "notes": "Static analysis only. fix: commits in /repo and their demonstrations are listed in known_findings.json (status fixed). "
             "See DESIGN.md.",
    "not_applicable": na,
}
json.dump(m, open(os.path.join(HERE, "MANIFEST.json"), "w"), indent=1)
print("claimed", [c["property_id"] for c in checks], "n/a", [n["property_id"] for n in na])
