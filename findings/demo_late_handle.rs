// C06/C10: a subscriber that finishes during the hand-over of a Behavior/ReplaySubject (take(1), first())
// must not stay attached to the live subject.  Observed through an item type that counts its clones:
// Subject::next clones the item once per attached observer.
use another_rxrust::prelude::*;
use std::sync::atomic::{AtomicUsize, Ordering};
use std::sync::Arc;
static CLONES: AtomicUsize = AtomicUsize::new(0);
struct Item(i32);
impl Clone for Item { fn clone(&self) -> Self { CLONES.fetch_add(1, Ordering::SeqCst); Item(self.0) } }
fn main() {
  let b = subjects::BehaviorSubject::<Arc<Item>>::new(Arc::new(Item(0)));
  let _ = &b;
  // use a plain counter through a probe observer instead: count how many relays the subject still drives
  let bs = subjects::BehaviorSubject::<Item>::new(Item(0));
  for _ in 0..3 { bs.observable().take(1).subscribe(|_| {}, |_| {}, || {}); }
  CLONES.store(0, Ordering::SeqCst);
  bs.next(Item(1));
  println!("BehaviorSubject: clones made by next() after 3 finished take(1) subscriptions: {} (1 = stored value only)", CLONES.load(Ordering::SeqCst));
  let rs = subjects::ReplaySubject::<Item>::new();
  rs.next(Item(0));
  for _ in 0..3 { rs.observable().take(1).subscribe(|_| {}, |_| {}, || {}); }
  CLONES.store(0, Ordering::SeqCst);
  rs.next(Item(1));
  println!("ReplaySubject: clones made by next() after 3 finished take(1) subscriptions: {} (1 = history only)", CLONES.load(Ordering::SeqCst));
}
