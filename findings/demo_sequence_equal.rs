use another_rxrust::prelude::*;
use std::sync::{Arc, RwLock};
fn rec<T: Clone + Send + Sync + std::fmt::Debug + 'static>(o: Observable<'static, T>) -> Vec<String> {
  let log = Arc::new(RwLock::new(Vec::new()));
  let (a, b, c) = (log.clone(), log.clone(), log.clone());
  o.subscribe(move |x| a.write().unwrap().push(format!("{:?}", x)), move |_| b.write().unwrap().push("E".into()), move || c.write().unwrap().push("C".into()));
  let v = log.read().unwrap().clone();
  v
}
fn main() {
  let f = |a: Vec<i32>, b: Vec<i32>| rec(observables::from_iter(a.into_iter()).sequence_equal(&[observables::from_iter(b.into_iter())]));
  println!("[1,2,3] vs [1,2,3] = {:?}", f(vec![1,2,3], vec![1,2,3]));
  println!("[1,2,3] vs [1,2]   = {:?}", f(vec![1,2,3], vec![1,2]));
  println!("[1,2]   vs [1,2,3] = {:?}", f(vec![1,2], vec![1,2,3]));
  println!("[]      vs [1]     = {:?}", f(vec![], vec![1]));
  println!("[1,2,3] vs [1,9,3] = {:?}", f(vec![1,2,3], vec![1,9,3]));
  let z = |a: Vec<i32>, b: Vec<i32>| rec(observables::from_iter(a.into_iter()).zip(&[observables::from_iter(b.into_iter())]));
  println!("zip [1,2,3] [10,20] = {:?}", z(vec![1,2,3], vec![10,20]));
}
