// merge/zip/amb subscribe their remaining inputs even after an earlier input has already ended the
// whole subscription: the late input is subscribed on behalf of a dead subscriber and never torn down.
use another_rxrust::prelude::*;
use std::sync::{Arc, RwLock};
fn main() {
  let token = Arc::new(());
  let still = Arc::new(RwLock::new(None::<Observer<i32>>));
  {
    let t = token.clone();
    let still2 = still.clone();
    let probe = Observable::create(move |s: Observer<i32>| { *still2.write().unwrap() = Some(s); });
    let o = observables::error::<i32>(RxError::from_error("x")).merge(&[probe.filter(move |_| { let _ = &t; true })]);
    let sub = o.subscribe(|_| {}, |_| {}, || {});
    println!("downstream is_subscribed after the error: {}", sub.is_subscribed());
  }
  match still.write().unwrap().take() {
    Some(s) => println!("late input still subscribed after the subscription ended: {}", s.is_subscribed()),
    None => println!("late input was never subscribed (the subscription had already ended)"),
  }
  println!("strong_count of the token in the late input's filter closure after dropping everything: {}", Arc::strong_count(&token));
}
