// C02: skip_while(p) must discard items while p holds and pass everything from the first item for
// which p is false (ReactiveX SkipWhile; implementation_status.md: "discard items emitted by an
// Observable until a specified condition becomes false"); take_while(p) in the same crate takes
// while p holds.
use another_rxrust::prelude::*;
use std::sync::{Arc, RwLock};
fn rec(o: Observable<'static, i32>) -> Vec<String> {
  let log = Arc::new(RwLock::new(Vec::new()));
  let (a, b, c) = (log.clone(), log.clone(), log.clone());
  o.subscribe(move |x| a.write().unwrap().push(format!("{}", x)), move |_| b.write().unwrap().push("E".into()), move || c.write().unwrap().push("C".into()));
  let v = log.read().unwrap().clone();
  v
}
fn main() {
  println!("from_iter(0..8).take_while(|x| x < 3) = {:?}", rec(observables::from_iter(0..8).take_while(|x| x < 3)));
  println!("from_iter(0..8).skip_while(|x| x < 3) = {:?}   (expected 3..7)", rec(observables::from_iter(0..8).skip_while(|x| x < 3)));
  println!("from_iter([5,1,7,2]).skip_while(|x| x > 4) = {:?}   (expected 1,7,2)", rec(observables::from_iter(vec![5, 1, 7, 2].into_iter()).skip_while(|x| x > 4)));
}
