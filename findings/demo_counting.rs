use another_rxrust::prelude::*;
use std::sync::{Arc, RwLock};
fn rec<T: Clone + Send + Sync + std::fmt::Debug + 'static>(o: Observable<'static, T>) -> Vec<String> {
  let log = Arc::new(RwLock::new(Vec::new()));
  let (a,b,c) = (log.clone(), log.clone(), log.clone());
  o.subscribe(move |x| a.write().unwrap().push(format!("{:?}", x)), move |_| b.write().unwrap().push("E".into()), move || c.write().unwrap().push("C".into()));
  let v = log.read().unwrap().clone(); v
}
fn main() {
  for count in 0..4usize {
    for len in 0..5 {
      let src = move || observables::from_iter(1..=len);
      println!("count={} len={} take={:?} skip={:?} take_last={:?} skip_last={:?}", count, len,
        rec(src().take(count)), rec(src().skip(count)), rec(src().take_last(count)), rec(src().skip_last(count)));
      if count > 0 {
        println!("    buffer={:?}", rec(src().buffer_with_count(count)));
        // windows: record the items of each window, flattened with window markers
        let log = Arc::new(RwLock::new(Vec::<String>::new()));
        let (a,c) = (log.clone(), log.clone());
        src().window_with_count(count).subscribe(move |w: Observable<'static, i32>| {
          a.write().unwrap().push("W[".into());
          let (a1,a2) = (a.clone(), a.clone());
          w.subscribe(move |x| a1.write().unwrap().push(format!("{}", x)), |_| {}, move || a2.write().unwrap().push("]".into()));
        }, |_| {}, move || c.write().unwrap().push("C".into()));
        println!("    window={:?}", log.read().unwrap());
      }
    }
  }
}
