// C07 re-entrancy demonstrations: each scenario is run in its own process under `timeout 5`;
// "DEADLOCK" = killed by the timeout, i.e. a call into the library never returned.
use another_rxrust::prelude::*;
use std::sync::{Arc, RwLock};
fn once() -> impl Fn() -> bool + Send + Sync + Clone { let f = Arc::new(RwLock::new(true)); move || { let mut g = f.write().unwrap(); let v = *g; *g = false; v } }
fn main() {
  let which = std::env::args().nth(1).unwrap();
  match which.as_str() {
    "scan_emit" => { let sbj = subjects::Subject::<i32>::new(); let s2 = sbj.clone(); let o = once();
      sbj.observable().scan(|(a, b)| a + b).subscribe(move |_| if o() { s2.next(10) }, |_| {}, || {}); sbj.next(1); }
    "scan_accumulator" => { let sbj = subjects::Subject::<i32>::new(); let s2 = sbj.clone(); let o = once();
      sbj.observable().scan(move |(a, b)| { if o() { s2.next(10) }; a + b }).subscribe(|_| {}, |_| {}, || {}); sbj.next(1); sbj.next(2); }
    "reduce_accumulator" => { let sbj = subjects::Subject::<i32>::new(); let s2 = sbj.clone(); let o = once();
      sbj.observable().reduce(move |(a, b)| { if o() { s2.next(10) }; a + b }).subscribe(|_| {}, |_| {}, || {}); sbj.next(1); sbj.next(2); }
    "time_interval" => { let sbj = subjects::Subject::<i32>::new(); let s2 = sbj.clone(); let o = once();
      sbj.observable().time_interval().subscribe(move |_| if o() { s2.next(10) }, |_| {}, || {}); sbj.next(1); sbj.next(2); }
    "group_by" => { let sbj = subjects::Subject::<i32>::new(); let s2 = sbj.clone(); let o = once();
      sbj.observable().group_by(|x| x % 2).subscribe(move |_| if o() { s2.next(3) }, |_| {}, || {}); sbj.next(1); }
    "window_with_count" => { let sbj = subjects::Subject::<i32>::new(); let s2 = sbj.clone(); let o = once();
      sbj.observable().window_with_count(2).subscribe(move |_| if o() { s2.next(3) }, |_| {}, || {}); sbj.next(1); }
    "behavior_subject" => { let b = subjects::BehaviorSubject::<i32>::new(0); let b2 = b.clone(); let o = once();
      b.observable().subscribe(move |_| if o() { b2.next(1) }, |_| {}, || {}); }
    "replay_subject" => { let r = subjects::ReplaySubject::<i32>::new(); r.next(1); let r2 = r.clone(); let o = once();
      r.observable().subscribe(move |_| if o() { r2.next(2) }, |_| {}, || {}); }
    "replay_subject_error" => { let r = subjects::ReplaySubject::<i32>::new(); r.next(1); let r2 = r.clone(); let o = once();
      r.observable().subscribe(move |_| if o() { r2.error(RxError::from_error("x")) }, |_| {}, || {}); }
    "replay_subject_complete" => { let r = subjects::ReplaySubject::<i32>::new(); r.next(1); let r2 = r.clone(); let o = once();
      r.observable().subscribe(move |_| if o() { r2.complete() }, |_| {}, || {}); }
    "window_with_count_2nd" => { let sbj = subjects::Subject::<i32>::new(); let s2 = sbj.clone(); let o = once();
      sbj.observable().window_with_count(2).flat_map(|w| w).subscribe(move |x| if x == 2 && o() { s2.next(3) }, |_| {}, || {}); sbj.next(1); sbj.next(2); }
    "ref_count" => { observables::from_iter(0..3).ref_count().observable().take(1).subscribe(|_| {}, |_| {}, || {}); }
    "replay" => { observables::from_iter(0..3).replay().observable().take(1).subscribe(|_| {}, |_| {}, || {}); }
    _ => panic!("unknown"),
  }
  println!("returned");
}
