// Demonstrations of the defects reported by the static checks, against the real crate.
use another_rxrust::prelude::*;
use std::sync::{Arc, RwLock};

fn log() -> (Arc<RwLock<Vec<String>>>, impl Fn(&str) + Clone + Send + Sync) {
  let l = Arc::new(RwLock::new(Vec::new()));
  let l2 = l.clone();
  (l, move |s: &str| l2.write().unwrap().push(s.to_string()))
}

fn sub<T: Clone + Send + Sync + std::fmt::Debug + 'static>(o: &Observable<'static, T>) -> Vec<String> {
  let (l, p) = log();
  let (p1, p2, p3) = (p.clone(), p.clone(), p.clone());
  o.subscribe(move |x| p1(&format!("n{:?}", x)), move |_| p2("E"), move || p3("C"));
  let v = l.read().unwrap().clone();
  v
}

fn probe(n: i32) -> (Observable<'static, i32>, Arc<RwLock<Vec<bool>>>) {
  let seen = Arc::new(RwLock::new(Vec::new()));
  let seen2 = seen.clone();
  let o = Observable::create(move |s: Observer<i32>| {
    for i in 0..n {
      seen2.write().unwrap().push(s.is_subscribed());
      s.next(i);
    }
    s.complete();
  });
  (o, seen)
}

fn main() {
  // C01
  let o = Observable::create(|s: Observer<i32>| { s.next(1); s.complete(); s.next(2); s.error(RxError::from_error("x")); });
  println!("C01 complete-then-next/error direct: {:?}", sub(&o));
  let o = Observable::create(|s: Observer<i32>| { s.next(1); s.error(RxError::from_error("x")); s.next(2); s.complete(); });
  println!("C01 error-then-next/complete direct: {:?}", sub(&o));
  // C06
  let (o, seen) = probe(5); sub(&o.take(2)); println!("C06 take(2) probe: {:?}", seen.read().unwrap());
  let (o, seen) = probe(5); sub(&o.take_while(|x| x < 2)); println!("C06 take_while(<2) probe: {:?}", seen.read().unwrap());
  let (o, seen) = probe(5); sub(&o.contains(1)); println!("C06 contains(1) probe: {:?}", seen.read().unwrap());
  let seen = Arc::new(RwLock::new(Vec::new())); let seen2 = seen.clone();
  let o = Observable::create(move |s: Observer<Material<i32>>| {
    for i in 0..5 { seen2.write().unwrap().push(s.is_subscribed()); if i == 1 { s.next(Material::Complete) } else { s.next(Material::Next(i)) } }
    s.complete();
  });
  sub(&o.dematerialize()); println!("C06 dematerialize probe: {:?}", seen.read().unwrap());
  // C14
  let flag = Arc::new(RwLock::new(true)); let flag2 = flag.clone();
  let o = Observable::create(move |s: Observer<i32>| { if *flag2.read().unwrap() { s.next(1); } s.complete(); }).default_if_empty(7);
  let a = sub(&o); *flag.write().unwrap() = false; let b = sub(&o);
  println!("C14 default_if_empty: {:?} then {:?}", a, b);
  let o = observables::just(1).concat(&[observables::just(2)]);
  println!("C14 concat: {:?} then {:?}", sub(&o), sub(&o));
  let (l, p) = log(); let (p1, p2, p3) = (p.clone(), p.clone(), p.clone());
  let o = observables::just(1).tap(move |x| p1(&format!("t{}", x)), move |_| p2("tE"), move || p3("tC"));
  sub(&o); sub(&o); println!("C14 tap over two subscriptions: {:?}", l.read().unwrap());
  // C03
  println!("C03 just(1).switch_on_next(just(2)): {:?}", sub(&observables::just(1).switch_on_next(observables::just(2))));
  // C17
  let token = Arc::new(());
  { let t = token.clone(); observables::just(1).map(|x| x).subscribe(move |_| { let _ = &t; }, |_| {}, || {}); }
  println!("C17 strong_count after complete via map: {}", Arc::strong_count(&token));
  { let t = token.clone(); observables::error::<i32>(RxError::from_error("x")).map(|x| x).subscribe(move |_| { let _ = &t; }, |_| {}, || {}); }
  println!("C17 strong_count after error via map: {}", Arc::strong_count(&token));
  { let t = token.clone(); observables::just(1).subscribe(move |_| { let _ = &t; }, |_| {}, || {}); }
  println!("C17 strong_count after complete direct: {}", Arc::strong_count(&token));
}
use another_rxrust::prelude::*;
use std::sync::{Arc, RwLock};
fn sub<T: Clone + Send + Sync + std::fmt::Debug + 'static>(o: &Observable<'static, T>) -> Vec<String> {
  let l = Arc::new(RwLock::new(Vec::new()));
  let (p1, p2, p3) = (l.clone(), l.clone(), l.clone());
  o.subscribe(move |x| p1.write().unwrap().push(format!("n{:?}", x)), move |e| p2.write().unwrap().push(format!("E({})", e.downcast_ref::<&str>().unwrap())), move || p3.write().unwrap().push("C".into()));
  let v = l.read().unwrap().clone(); v
}
fn main() {
  let err = || observables::error::<i32>(RxError::from_error("trigger failed"));
  println!("C04 never().take_until(error): {:?}", sub(&observables::never::<i32>().take_until(err())));
  println!("C04 never().skip_until(error): {:?}", sub(&observables::never::<i32>().skip_until(err())));
  println!("C04 never().sample(error): {:?}", sub(&observables::never::<i32>().sample(err())));
}
