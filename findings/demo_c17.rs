// C17 demonstrations: reference-counted token captured by the subscriber's next callback.
use another_rxrust::prelude::*;
use std::sync::Arc;
fn main() {
  let token = Arc::new(());
  { let t = token.clone(); let b = subjects::BehaviorSubject::<i32>::new(0);
    b.observable().subscribe(move |_| { let _ = &t; }, |_| {}, || {}); b.complete(); }
  println!("C17 BehaviorSubject direct, after complete + drop: strong_count = {}", Arc::strong_count(&token));
  let token = Arc::new(());
  { let t = token.clone(); let b = subjects::ReplaySubject::<i32>::new();
    b.observable().subscribe(move |_| { let _ = &t; }, |_| {}, || {}); b.next(1); b.error(RxError::from_error("x")); }
  println!("C17 ReplaySubject direct, after error + drop: strong_count = {}", Arc::strong_count(&token));
  let token = Arc::new(());
  { let t = token.clone(); let b = subjects::Subject::<i32>::new();
    b.observable().subscribe(move |_| { let _ = &t; }, |_| {}, || {}); b.complete(); }
  println!("C17 Subject direct, after complete + drop: strong_count = {}", Arc::strong_count(&token));
  let token = Arc::new(());
  { let t = token.clone(); let b = subjects::BehaviorSubject::<i32>::new(0);
    let s = b.observable().subscribe(move |_| { let _ = &t; }, |_| {}, || {}); s.unsubscribe(); }
  println!("C17 BehaviorSubject direct, after unsubscribe + drop: strong_count = {}", Arc::strong_count(&token));
  let token = Arc::new(());
  { let t = token.clone(); let src = subjects::Subject::<i32>::new();
    let rc = src.observable().map(move |x| { let _ = &t; x }).ref_count();
    let s = rc.observable().subscribe(|_| {}, |_| {}, || {}); s.unsubscribe(); drop(rc); drop(src); }
  println!("C17 ref_count: map closure token after last unsubscribe + drop: strong_count = {}", Arc::strong_count(&token));
  let token = Arc::new(());
  { let t = token.clone(); let src = subjects::Subject::<i32>::new();
    let rc = src.observable().map(move |x| { let _ = &t; x }).ref_count();
    rc.observable().subscribe(|_| {}, |_| {}, || {}); src.complete(); drop(rc); drop(src); }
  println!("C17 ref_count: map closure token after source complete + drop: strong_count = {}", Arc::strong_count(&token));
  let token = Arc::new(());
  { let t = token.clone(); let src = subjects::Subject::<i32>::new();
    let rc = src.observable().map(move |x| { let _ = &t; x }).replay();
    let s = rc.observable().subscribe(|_| {}, |_| {}, || {}); s.unsubscribe(); drop(rc); drop(src); }
  println!("C17 replay: map closure token after last unsubscribe + drop: strong_count = {}", Arc::strong_count(&token));
  let token = Arc::new(());
  { let t = token.clone(); let src = subjects::Subject::<i32>::new();
    let rc = src.observable().map(move |x| { let _ = &t; x }).publish();
    rc.observable().subscribe(|_| {}, |_| {}, || {}); let c = rc.connect(); src.complete(); drop(c); drop(rc); drop(src); }
  println!("C17 publish: map closure token after source complete + drop: strong_count = {}", Arc::strong_count(&token));
}
