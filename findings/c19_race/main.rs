// C19 / A19b demonstration: two terminal notifications (error AND complete) for one subscriber.
// The interleaving is forced from outside with gdb (findings/c19_race.gdb): thread A is stopped
// between Observer::complete's is_subscribed() gate and the atomic take of its callback; thread B then runs
// error() to completion; A is resumed.
use another_rxrust::prelude::*;
use std::sync::atomic::{AtomicBool, Ordering};
use std::sync::{Arc, RwLock};
use std::thread;

static GO: AtomicBool = AtomicBool::new(false);

#[inline(never)]
#[no_mangle]
pub extern "C" fn marker_error_returned() {
  std::hint::black_box(());
}

fn main() {
  let log = Arc::new(RwLock::new(Vec::<String>::new()));
  let (l1, l2, l3) = (log.clone(), log.clone(), log.clone());
  let ob = Observer::new(
    move |x: i32| l1.write().unwrap().push(format!("next({})", x)),
    move |_e| l2.write().unwrap().push("error".to_string()),
    move || l3.write().unwrap().push("complete".to_string()),
  );
  let b = ob.clone();
  let tb = thread::Builder::new().name("thread-B".into()).spawn(move || {
    while !GO.load(Ordering::SeqCst) { std::hint::spin_loop(); }
    b.error(RxError::from_error("boom"));
    marker_error_returned();
  }).unwrap();
  let a = ob.clone();
  let ta = thread::Builder::new().name("thread-A".into()).spawn(move || {
    a.next(1);
    GO.store(true, Ordering::SeqCst);
    a.complete();
  }).unwrap();
  ta.join().unwrap();
  tb.join().unwrap();
  println!("subscriber saw: {:?}", log.read().unwrap());
}
