set pagination off
set confirm off
set non-stop off
# let thread A emit next(1) and raise GO, then stop it inside Observer::complete after the
# is_subscribed() gate, at the entry of FunctionWrapper::call_and_clear_if_available
break observer.rs:49
run
info threads
set scheduler-locking on
python
import gdb
for t in gdb.selected_inferior().threads():
    if t.name == "thread-B":
        gdb.execute("thread %d" % t.num)
end
break marker_error_returned
continue
# thread B has delivered error() and its callback has returned; resume thread A only
python
for t in gdb.selected_inferior().threads():
    if t.name == "thread-A":
        gdb.execute("thread %d" % t.num)
end
delete
set scheduler-locking off
continue
quit
