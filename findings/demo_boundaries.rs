use another_rxrust::prelude::*;
use std::sync::{Arc, RwLock};
type Log = Arc<RwLock<Vec<String>>>;
fn sub<T: Clone + Send + Sync + std::fmt::Debug + 'static>(o: Observable<'static, T>) -> (Log, Subscription<'static>) {
  let log: Log = Arc::new(RwLock::new(Vec::new()));
  let (a, b, c) = (log.clone(), log.clone(), log.clone());
  let s = o.subscribe(move |x| a.write().unwrap().push(format!("{:?}", x)), move |_| b.write().unwrap().push("E".into()), move || c.write().unwrap().push("C".into()));
  (log, s)
}
fn show(name: &str, l: &Log) { println!("{:<44} {:?}", name, l.read().unwrap()); }
fn main() {
  // zip with hot subjects
  { let a = subjects::Subject::<i32>::new(); let b = subjects::Subject::<i32>::new();
    let (l, _s) = sub(a.observable().zip(&[b.observable()]));
    a.next(1); a.next(2); b.next(10); a.complete(); b.next(20); b.next(30); b.complete();
    show("zip a:1,2,C b:10,20,30,C", &l); }
  { let a = subjects::Subject::<i32>::new(); let b = subjects::Subject::<i32>::new();
    let (l, _s) = sub(a.observable().zip(&[b.observable()]));
    a.next(1); a.complete(); b.next(10); b.next(20);
    show("zip a:1,C b:10,20 (b silent after)", &l); }
  // merge
  { let a = subjects::Subject::<i32>::new(); let b = subjects::Subject::<i32>::new();
    let (l, _s) = sub(a.observable().merge(&[b.observable()]));
    a.next(1); b.next(10); a.complete(); b.next(20); b.complete(); b.next(30);
    show("merge a:1,C b:10,20,C", &l); }
  { let a = subjects::Subject::<i32>::new(); let b = subjects::Subject::<i32>::new();
    let (l, _s) = sub(a.observable().merge(&[b.observable()]));
    a.next(1); b.error(RxError::from_error("x")); a.next(2);
    show("merge a:1 b:E a:2", &l); }
  // concat
  { let a = subjects::Subject::<i32>::new(); let b = subjects::Subject::<i32>::new();
    let (l, _s) = sub(a.observable().concat(&[b.observable()]));
    a.next(1); b.next(10); a.complete(); b.next(20); b.complete();
    show("concat a:1 b:10(lost) a:C b:20,C", &l); }
  { let (l, _s) = sub(observables::from_iter(1..=2).concat(&[observables::from_iter(10..=11), observables::from_iter(20..=21)]));
    show("concat cold x3", &l); }
  { let a = subjects::Subject::<i32>::new(); let b = subjects::Subject::<i32>::new();
    let (l, _s) = sub(a.observable().switch_on_next(b.observable()));
    a.next(1); b.next(10); a.next(2); b.next(11); a.complete(); b.next(12); b.complete();
    show("switch_on_next a:1 b:10 a:2 b:11 aC b:12 bC", &l); }
  { let a = subjects::Subject::<i32>::new(); let b = subjects::Subject::<i32>::new();
    let (l, _s) = sub(a.observable().switch_on_next(b.observable()));
    a.next(1); a.complete(); b.next(10); b.complete();
    show("switch_on_next a:1,C b:10,C", &l); }
  // flat_map
  { let outer = subjects::Subject::<i32>::new(); let a = subjects::Subject::<i32>::new(); let a2 = a.clone();
    let (l, _s) = sub(outer.observable().flat_map(move |x| a2.observable().map(move |y| x * 100 + y)));
    outer.next(1); a.next(1); outer.next(2); a.next(2); outer.complete(); a.next(3); a.complete();
    show("flat_map", &l); }
  // retry
  { let n = Arc::new(RwLock::new(0));
    let n2 = n.clone();
    let src = Observable::create(move |s| { let k = { let mut g = n2.write().unwrap(); *g += 1; *g }; s.next(k); if k < 3 { s.error(RxError::from_error("e")); } else { s.complete(); } });
    for c in 0..4usize { *n.write().unwrap() = 0; let (l, _s) = sub(src.clone().retry(c)); show(&format!("retry({}) on src failing twice", c), &l); } }
  // on_error_resume_next
  { let (l, _s) = sub(observables::error::<i32>(RxError::from_error("e")).on_error_resume_next(|_| observables::from_iter(5..=6)));
    show("on_error_resume_next", &l); }
  // start_with / default_if_empty / element_at / first / last boundary
  { let (l, _s) = sub(observables::from_iter(1..=3).element_at(0)); show("element_at(0) of 1..3", &l); }
  { let (l, _s) = sub(observables::from_iter(1..=3).element_at(1)); show("element_at(1) of 1..3", &l); }
  { let (l, _s) = sub(observables::from_iter(1..=3).element_at(3)); show("element_at(3) of 1..3", &l); }
  { let (l, _s) = sub(observables::from_iter(1..=3).element_at(4)); show("element_at(4) of 1..3", &l); }
  { let (l, _s) = sub(observables::empty::<i32>().first()); show("first of empty", &l); }
  { let (l, _s) = sub(observables::empty::<i32>().last()); show("last of empty", &l); }
  { let (l, _s) = sub(observables::from_iter(1..=4).group_by(|x| x % 2).flat_map(|g| g.count())); show("group_by parity |> count", &l); }
  { let (l, _s) = sub(observables::from_iter(1..=3).all(|x| x > 0)); show("all >0", &l); }
  { let (l, _s) = sub(observables::empty::<i32>().all(|x| x > 0)); show("all of empty", &l); }
  { let (l, _s) = sub(observables::from_iter(1..=3).distinct_until_changed()); show("distinct 1,2,3", &l); }
  { let (l, _s) = sub(observables::range(5, 0)); show("range(5,0)", &l); }
  { let (l, _s) = sub(observables::range(5, 3)); show("range(5,3)", &l); }
}
