set pagination off
set confirm off
set non-stop off
source gdb_common.py
# thread-S: stop after it was handed the latest value (0), before it subscribes to the live subject
break behavior_subject.rs:60
run behavior
set scheduler-locking on
python switch("thread-P")
break marker_other_thread_done
continue
# thread-P has pushed 1 completely (store + broadcast); resume thread-S
python switch("thread-S")
delete
set scheduler-locking off
continue
quit
