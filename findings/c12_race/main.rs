// C12 demonstrations (two-step windows), interleavings forced with gdb (see the .gdb scripts):
//  replay   : a producer is stopped after appending item 3 to the ReplaySubject's history and before
//             broadcasting it; a subscriber then subscribes (subscribe-live + replay [1,2,3]); the
//             producer is resumed and broadcasts 3 -> the late subscriber receives 3 twice.
//  behavior_dup : a producer is stopped after storing 1 as the latest value and before broadcasting it; a
//             subscriber subscribes (handed 1, then attached); the producer resumes and broadcasts 1 -> twice.
//  behavior : a subscriber is stopped after it was handed the BehaviorSubject's latest value and
//             before it subscribes to the live subject; a producer pushes 1 completely; the
//             subscriber is resumed -> it never receives 1 (a gap), although it then receives 2.
use another_rxrust::prelude::*;
use std::sync::atomic::{AtomicBool, Ordering};
use std::sync::{Arc, RwLock};
use std::thread;

static GO: AtomicBool = AtomicBool::new(false);

#[inline(never)]
#[no_mangle]
pub extern "C" fn marker_other_thread_done() { std::hint::black_box(()); }

fn main() {
  let which = std::env::args().nth(1).unwrap_or_default();
  let log = Arc::new(RwLock::new(Vec::<i32>::new()));
  let l = log.clone();
  if which == "replay" {
    let r = subjects::ReplaySubject::<i32>::new();
    r.next(1); r.next(2);
    let r2 = r.clone();
    let tb = thread::Builder::new().name("thread-S".into()).spawn(move || {
      while !GO.load(Ordering::SeqCst) { std::hint::spin_loop(); }
      r2.observable().subscribe(move |x| l.write().unwrap().push(x), |_| {}, || {});
      marker_other_thread_done();
    }).unwrap();
    let r3 = r.clone();
    let ta = thread::Builder::new().name("thread-P".into()).spawn(move || {
      GO.store(true, Ordering::SeqCst);
      r3.next(3);
    }).unwrap();
    ta.join().unwrap(); tb.join().unwrap();
    println!("late ReplaySubject subscriber saw: {:?}", log.read().unwrap());
  } else if which == "behavior_dup" {
    let b = subjects::BehaviorSubject::<i32>::new(0);
    let b2 = b.clone();
    let tb = thread::Builder::new().name("thread-S".into()).spawn(move || {
      while !GO.load(Ordering::SeqCst) { std::hint::spin_loop(); }
      b2.observable().subscribe(move |x| l.write().unwrap().push(x), |_| {}, || {});
      marker_other_thread_done();
    }).unwrap();
    let b3 = b.clone();
    let ta = thread::Builder::new().name("thread-P".into()).spawn(move || {
      GO.store(true, Ordering::SeqCst);
      b3.next(1);
    }).unwrap();
    ta.join().unwrap(); tb.join().unwrap();
    println!("late BehaviorSubject subscriber (push in flight) saw: {:?}", log.read().unwrap());
  } else {
    let b = subjects::BehaviorSubject::<i32>::new(0);
    let b2 = b.clone();
    let tp = thread::Builder::new().name("thread-P".into()).spawn(move || {
      while !GO.load(Ordering::SeqCst) { std::hint::spin_loop(); }
      b2.next(1);
      marker_other_thread_done();
    }).unwrap();
    let b3 = b.clone();
    let ts = thread::Builder::new().name("thread-S".into()).spawn(move || {
      GO.store(true, Ordering::SeqCst);
      b3.observable().subscribe(move |x| l.write().unwrap().push(x), |_| {}, || {});
    }).unwrap();
    ts.join().unwrap(); tp.join().unwrap();
    b.next(2);
    println!("late BehaviorSubject subscriber saw: {:?}", log.read().unwrap());
  }
}
