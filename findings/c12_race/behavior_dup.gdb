set pagination off
set confirm off
set non-stop off
source gdb_common.py
# thread-P: stop after the history append, before the broadcast (replay_subject.rs: `self.subject.next(item)`)
break behavior_subject.rs:28

run behavior_dup
set scheduler-locking on
python switch("thread-S")
break marker_other_thread_done
continue
# thread-S has subscribed (subscribe-live, then replayed [1,2,3]); resume thread-P: it now broadcasts 3
python switch("thread-P")
delete
set scheduler-locking off
continue
quit
