import gdb
def switch(name):
    for t in gdb.selected_inferior().threads():
        if t.name == name:
            gdb.execute("thread %d" % t.num)
            return
    raise gdb.GdbError("thread %s not found" % name)
