// C13: ref_count()/replay() subscribe the source when their first subscriber arrives and unsubscribe it when
// the last one leaves.  A subscriber that arrives after the count dropped to zero is a first subscriber again.
use another_rxrust::prelude::*;
use std::sync::{Arc, RwLock};
type Log = Arc<RwLock<Vec<String>>>;
fn sub<T: Clone + Send + Sync + std::fmt::Debug + 'static>(o: Observable<'static, T>) -> (Log, Subscription<'static>) {
  let log: Log = Arc::new(RwLock::new(Vec::new()));
  let (a, b, c) = (log.clone(), log.clone(), log.clone());
  let s = o.subscribe(move |x| a.write().unwrap().push(format!("{:?}", x)), move |_| b.write().unwrap().push("E".into()), move || c.write().unwrap().push("C".into()));
  (log, s)
}
fn main() {
  {
    let src = subjects::Subject::<i32>::new();
    let r = src.observable().ref_count();
    let o = r.observable();
    let (a, x) = sub(o.clone());
    src.next(1);
    x.unsubscribe();
    src.next(2);
    let (c, _z) = sub(o.clone());
    src.next(3);
    println!("ref_count: first generation {:?}, second generation {:?} (expected [\"3\"])", a.read().unwrap(), c.read().unwrap());
  }
  {
    let src = subjects::Subject::<i32>::new();
    let r = src.observable().replay();
    let o = r.observable();
    let (a, x) = sub(o.clone());
    src.next(1);
    x.unsubscribe();
    src.next(2);
    let (c, _z) = sub(o.clone());
    src.next(3);
    println!("replay:    first generation {:?}, second generation {:?} (expected [\"1\", \"3\"])", a.read().unwrap(), c.read().unwrap());
  }
}
